#!/usr/bin/env python3
"""
Confirm a seeded change and run checks against it, in a scratch copy of /repo's working tree
(outside /repo and /verif; removed afterwards).

  tools/seedtest.py <dir-with-patch.diff-and-demo.py> [--checks C07,C03] [--tier quick] [--no-tests] [--keep]
"""
import os, sys, subprocess, shutil, tempfile, json, time
ROOT = os.path.dirname(os.path.dirname(os.path.abspath(__file__)))
PY = '/venv/bin/python'


def sh(cmd, cwd=None, env=None, timeout=3600):
    p = subprocess.run(cmd, shell=True, cwd=cwd, env=env, stdout=subprocess.PIPE, stderr=subprocess.STDOUT, text=True, timeout=timeout)
    return p.returncode, p.stdout


def make_copy(repo='/repo'):
    d = tempfile.mkdtemp(prefix='seedcopy_', dir='/tmp')
    rc, out = sh('git -C %s ls-files -z | (cd %s && xargs -0 cp --parents -t %s)' % (repo, repo, d))
    assert rc == 0, out
    # working-tree state of tracked files is what cp copied (includes uncommitted edits)
    return d


def apply_patch(copy, patch):
    rc, out = sh('git apply --check %s' % patch, cwd=copy)
    if rc == 0:
        rc, out = sh('git apply %s' % patch, cwd=copy)
        return rc == 0, 'git apply: ' + out
    rc, out = sh('patch -p1 --fuzz=3 --no-backup-if-mismatch < %s' % patch, cwd=copy)
    return rc == 0, 'patch -p1: ' + out


def main(argv):
    sd = os.path.abspath(argv[0])
    checks, tier, tests, keep, seeds = None, 'quick', True, False, ['0']
    args = argv[1:]
    while args:
        a = args.pop(0)
        if a == '--checks': checks = args.pop(0).split(',')
        elif a == '--tier': tier = args.pop(0)
        elif a == '--no-tests': tests = False
        elif a == '--keep': keep = True
        elif a == '--seeds': seeds = args.pop(0).split(',')
    patch = os.path.join(sd, 'patch.diff')
    demo = os.path.join(sd, 'demo.py')
    res = dict(dir=sd)
    clean = make_copy()
    mutant = make_copy()
    try:
        ok, out = apply_patch(mutant, patch)
        res['patch_applies'] = ok
        if not ok:
            print(out); print(json.dumps(res)); return 2
        if os.path.exists(demo):
            rc1, o1 = sh('%s %s %s' % (PY, demo, clean), timeout=600)
            rc2, o2 = sh('%s %s %s' % (PY, demo, mutant), timeout=600)
            res['demo_clean_rc'], res['demo_mutant_rc'] = rc1, rc2
            res['demo_mutant_tail'] = o2[-600:]
            if rc1 != 0:
                res['demo_clean_tail'] = o1[-600:]
        if tests:
            rc, out = sh('%s -m pytest -q -p no:cacheprovider -x 2>&1 | tail -3' % PY, cwd=mutant, timeout=1800)
            res['tests_tail'] = out.strip().splitlines()[-1] if out.strip() else ''
            res['tests_pass'] = ' passed' in res['tests_tail'] and 'failed' not in res['tests_tail']
        res['checks'] = {}
        for c in (checks or []):
            for seed in seeds:
                env = dict(os.environ, VERIF_REPO=mutant, VERIF_SEED=seed)
                t0 = time.time()
                rc, out = sh('%s run.py check %s --tier %s' % (PY, c, tier), cwd=ROOT, env=env, timeout=7200)
                lines = [l for l in out.splitlines() if l.startswith(('VIOLATION', '  [', 'INCONCLUSIVE'))]
                res['checks']['%s/seed%s' % (c, seed)] = dict(rc=rc, s=round(time.time() - t0, 1), lines=[l[:300] for l in lines[:6]])
                if rc == 1:
                    break
    finally:
        if not keep:
            shutil.rmtree(clean, ignore_errors=True)
            shutil.rmtree(mutant, ignore_errors=True)
        else:
            res['copies'] = [clean, mutant]
    print(json.dumps(res, indent=1))
    return 0


if __name__ == '__main__':
    sys.exit(main(sys.argv[1:]))
