#!/usr/bin/env python3
"""Regenerate MANIFEST.json from the table below (kept valid against /root/.vp/MANIFEST.schema.json)."""
import json, os, sys
ROOT = os.path.dirname(os.path.dirname(os.path.abspath(__file__)))
sys.path.insert(0, ROOT)
from tools.manifest_table import CHECKS, NOT_YET   # noqa: E402

PY = '/venv/bin/python'
props = [json.loads(l) for l in open(os.path.join(ROOT, 'properties.jsonl'))]
ids = [p['id'] for p in props]
checks = []
for pid in ids:
    if pid not in CHECKS:
        continue
    c = CHECKS[pid]
    checks.append(dict(
        property_id=pid,
        quick_cmd='%s run.py check %s --tier quick' % (PY, pid),
        thorough_cmd='%s run.py check %s --tier thorough' % (PY, pid),
        evidence_file='evidence/%s.json' % pid,
        replay_cmd_template='%s run.py replay {path}' % PY,
        engine='vf',
        level_claimed=dict(category=c['level'], text=c['text'], design_ref=c['ref']),
        level_note=c['note'],
        technique=c['technique'],
    ))
na = [dict(property_id=pid, reason=NOT_YET.get(pid, 'check not built yet (work in progress); see DESIGN.md'))
      for pid in ids if pid not in CHECKS]
m = dict(
    version=1,
    setup_cmd='%s -m compileall -q vf run.py tools >/dev/null && %s tools/validate.py --manifest-only' % (PY, PY),
    hooks=dict(guard='DROOP_VERIF', enable='no source hooks: monitors attach from outside by rebinding '
               'droop.record.ElectionRecord.action and value-class methods at check time; /repo is imported as is',
               baseline_off_cmd='cd /repo && /venv/bin/python -m pytest -ra -q -p no:cacheprovider --timeout=900 '
               '--continue-on-collection-errors', source_commits=[], add_only=True),
    engines=[dict(name='vf', path='vf/', serves_properties=[c['property_id'] for c in checks],
                  kind_free_text='runtime monitoring harness: traced executions of the real droop package under '
                  'generated workloads, hook invariants, offline trace checkers, reference-model acceptors, '
                  'relational monitors, fault injection via sys.monitoring')],
    checks=checks,
    notes='All checks import droop from /repo (or $VERIF_REPO) at run time; VERIF_SEED selects the workload seed. '
          'Exit 0 held / 1 violation (VIOLATION line) / 2 inconclusive (deciding monitor never reached; not a verdict). '
          'Genuine defects recorded rather than repaired are in known_findings.json (KNOWN-FINDING lines).',
)
if na:
    m['not_applicable'] = na
with open(os.path.join(ROOT, 'MANIFEST.json'), 'w') as f:
    json.dump(m, f, indent=1)
    f.write('\n')
print('MANIFEST.json: %d checks, %d not claimed' % (len(checks), len(na)))
