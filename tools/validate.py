#!/usr/bin/env python3
"""Validate MANIFEST.json (and evidence files) against the schemas under /root/.vp if jsonschema is importable;
otherwise do a structural check. Exit 0 when valid."""
import json, os, sys, glob
ROOT = os.path.dirname(os.path.dirname(os.path.abspath(__file__)))
def load(p):
    with open(p) as f:
        return json.load(f)
def main():
    manifest_only = '--manifest-only' in sys.argv
    m = load(os.path.join(ROOT, 'MANIFEST.json'))
    try:
        import jsonschema
    except ImportError:
        jsonschema = None
    ok = True
    sm = '/root/.vp/MANIFEST.schema.json'
    if jsonschema and os.path.exists(sm):
        jsonschema.validate(m, load(sm))
    else:
        for k in ('version', 'setup_cmd', 'hooks', 'checks'):
            assert k in m, k
        for c in m['checks']:
            for k in ('property_id', 'quick_cmd', 'evidence_file', 'level_claimed', 'level_note'):
                assert k in c, (c.get('property_id'), k)
    ids = [json.loads(l)['id'] for l in open(os.path.join(ROOT, 'properties.jsonl'))]
    claimed = [c['property_id'] for c in m['checks']]
    na = [x['property_id'] for x in m.get('not_applicable', [])]
    assert sorted(claimed + na) == sorted(ids), 'every property must be claimed or listed not_applicable'
    if not manifest_only:
        se = '/root/.vp/EVIDENCE.schema.json'
        for c in m['checks']:
            p = os.path.join(ROOT, c['evidence_file'])
            if not os.path.exists(p):
                print('missing evidence', p); ok = False; continue
            e = load(p)
            if jsonschema and os.path.exists(se):
                try:
                    jsonschema.validate(e, load(se))
                except jsonschema.ValidationError as err:
                    print('INVALID', p, err.message); ok = False
            assert e['level'] == c['level_claimed']['category'], (p, 'level mismatch')
    print('manifest ok: %d claimed, %d not claimed' % (len(claimed), len(na)))
    return 0 if ok else 1
sys.exit(main())
