#!/usr/bin/env python3
"""
Systematic first-order mutation sweep of the droop sources (scratch copies only):
  phase 1  generate mutants with ast (comparison / arithmetic / boolean operator swaps, small-constant +-1, True<->False,
           'up'<->'down', dropped 'not'), run the pinned test suite on each; keep the survivors
  phase 2  run the quick checks relevant to the mutated file against every survivor (few shards, short budget);
           report survivors that no check catches (each is an equivalent mutant or a gap to look at)
usage: tools/mutsweep.py gen|tests|checks|report [--jobs N]
state lives in /root/scratch/mutsweep/
"""
import ast, os, sys, json, subprocess, shutil, tempfile, concurrent.futures, random
ROOT = os.path.dirname(os.path.dirname(os.path.abspath(__file__)))
STATE = '/root/scratch/mutsweep'
PY = '/venv/bin/python'
FILES = ['droop/election.py', 'droop/record.py', 'droop/candidate.py', 'droop/candidates.py', 'droop/profile.py', 'droop/options.py',
         'droop/values/__init__.py', 'droop/values/fixed.py', 'droop/values/guarded.py', 'droop/values/rational.py',
         'droop/rules/wigm.py', 'droop/rules/wigm_prf.py', 'droop/rules/cfer.py', 'droop/rules/scotland.py', 'droop/rules/mpls.py',
         'droop/rules/meek.py', 'droop/rules/meek_prf.py', 'droop/rules/qpq.py', 'droop/rules/electionmethods.py', 'Droop.py']
TRACE = ['C01', 'C09', 'C02', 'C04', 'C07', 'C18', 'C05']
CHECKS = {
    'droop/rules/wigm.py': TRACE + ['C06', 'C03', 'C13', 'C10'], 'droop/rules/wigm_prf.py': TRACE + ['C06', 'C03'], 'droop/rules/cfer.py': TRACE + ['C06', 'C03'],
    'droop/rules/scotland.py': TRACE + ['C06', 'C03', 'C11'], 'droop/rules/mpls.py': TRACE + ['C06', 'C03'], 'droop/rules/meek.py': TRACE + ['C08', 'C13', 'C10', 'C20'],
    'droop/rules/meek_prf.py': TRACE + ['C08', 'C03'], 'droop/rules/qpq.py': TRACE + ['C03'], 'droop/rules/electionmethods.py': ['C18', 'C14', 'C19'],
    'droop/values/fixed.py': ['C12', 'C14', 'C13', 'C20', 'C17'], 'droop/values/guarded.py': ['C13', 'C14', 'C20', 'C17', 'C08'], 'droop/values/rational.py': ['C12', 'C14', 'C20', 'C17'],
    'droop/values/__init__.py': ['C17', 'C20', 'C12'], 'droop/profile.py': ['C15', 'C16', 'C10', 'C11'], 'droop/options.py': ['C17', 'C20'],
    'droop/election.py': ['C17', 'C01', 'C18', 'C19', 'C20', 'C10'], 'droop/record.py': ['C18', 'C19', 'C14'], 'droop/candidate.py': ['C09', 'C18', 'C07', 'C01'],
    'droop/candidates.py': ['C09', 'C18', 'C07', 'C11', 'C01'], 'Droop.py': ['C19', 'C17'],
}
CMP = {ast.Lt: ast.LtE, ast.LtE: ast.Lt, ast.Gt: ast.GtE, ast.GtE: ast.Gt, ast.Eq: ast.NotEq, ast.NotEq: ast.Eq}
BIN = {ast.Add: ast.Sub, ast.Sub: ast.Add, ast.Mult: ast.FloorDiv, ast.FloorDiv: ast.Mult, ast.Div: ast.Mult}


def sites_of(tree):
    "deterministic list of (kind, node, index) mutation sites"
    sites = []
    for node in ast.walk(tree):
        if isinstance(node, ast.Compare):
            for i, op in enumerate(node.ops):
                if type(op) in CMP:
                    sites.append(('cmp', node, i))
        elif isinstance(node, ast.BinOp) and type(node.op) in BIN:
            if not (isinstance(node.left, ast.Constant) and isinstance(node.left.value, str)):
                sites.append(('bin', node, 0))
        elif isinstance(node, ast.BoolOp):
            sites.append(('bool', node, 0))
        elif isinstance(node, ast.UnaryOp) and isinstance(node.op, ast.Not):
            sites.append(('not', node, 0))
        elif isinstance(node, ast.Constant):
            if isinstance(node.value, bool):
                sites.append(('boolc', node, 0))
            elif isinstance(node.value, int) and -2 <= node.value <= 20:
                sites.append(('int+', node, 0))
                sites.append(('int-', node, 0))
            elif node.value in ('up', 'down'):
                sites.append(('updown', node, 0))
    return sites


def apply(tree, site):
    kind, node, i = site
    if kind == 'cmp':
        node.ops[i] = CMP[type(node.ops[i])]()
    elif kind == 'bin':
        node.op = BIN[type(node.op)]()
    elif kind == 'bool':
        node.op = ast.Or() if isinstance(node.op, ast.And) else ast.And()
    elif kind == 'not':
        class R(ast.NodeTransformer):
            def visit_UnaryOp(self, n):
                self.generic_visit(n)
                return n.operand if n is node else n
        tree = R().visit(tree)
    elif kind == 'boolc':
        node.value = not node.value
    elif kind == 'int+':
        node.value += 1
    elif kind == 'int-':
        node.value -= 1
    elif kind == 'updown':
        node.value = 'down' if node.value == 'up' else 'up'
    return tree


def gen():
    os.makedirs(STATE, exist_ok=True)
    out = []
    for fn in FILES:
        src = open(os.path.join('/repo', fn)).read()
        lines = src.split('\n')
        n = len(sites_of(ast.parse(src)))
        for k in range(n):
            tree = ast.parse(src)
            site = sites_of(tree)[k]
            line = getattr(site[1], 'lineno', 0)
            srcline = lines[line - 1].strip() if line else ''
            if srcline.startswith(('h +=', 'h =', 'helps[', 'u +=', 'u =', 'print(', "'", '"')) or 'pragma: no cover' in srcline:
                continue
            tree = apply(tree, site)
            ast.fix_missing_locations(tree)
            try:
                text = ast.unparse(tree)
                compile(text, fn, 'exec')
            except Exception:   # pylint: disable=broad-except
                continue
            out.append(dict(id='%s:%d:%s:%d' % (fn, line, site[0], k), file=fn, line=line, kind=site[0], src=srcline[:120], text=text))
    json.dump(out, open(os.path.join(STATE, 'mutants.json'), 'w'))
    print(len(out), 'mutants')


def make_copy():
    d = tempfile.mkdtemp(prefix='mut_', dir='/tmp')
    subprocess.run('git -C /repo ls-files -z | (cd /repo && xargs -0 cp --parents -t %s)' % d, shell=True, check=True)
    return d


def test_one(m):
    d = make_copy()
    try:
        open(os.path.join(d, m['file']), 'w').write(m['text'])
        try:
            p = subprocess.run('%s -m pytest -q -p no:cacheprovider -x 2>&1 | tail -1' % PY, shell=True, cwd=d, capture_output=True, text=True, timeout=300)
            tail = p.stdout.strip()
        except subprocess.TimeoutExpired:
            tail = 'TIMEOUT'
        return m['id'], (' passed' in tail and 'failed' not in tail and 'error' not in tail), tail[-80:]
    finally:
        shutil.rmtree(d, ignore_errors=True)


def tests(jobs):
    muts = json.load(open(os.path.join(STATE, 'mutants.json')))
    path = os.path.join(STATE, 'tests.json')
    done = json.load(open(path)) if os.path.exists(path) else {}
    todo = [m for m in muts if m['id'] not in done]
    random.Random(1).shuffle(todo)
    with concurrent.futures.ThreadPoolExecutor(max_workers=jobs) as ex:
        for k, (mid, ok, tail) in enumerate(ex.map(test_one, todo)):
            done[mid] = dict(survives=ok, tail=tail)
            if k % 25 == 0:
                json.dump(done, open(path, 'w'))
                print(k, len(todo), sum(1 for v in done.values() if v['survives']), 'survivors so far', flush=True)
    json.dump(done, open(path, 'w'))
    print('survivors', sum(1 for v in done.values() if v['survives']), 'of', len(done))


def check_one(args):
    m, qs, shards = args
    d = make_copy()
    res = {}
    try:
        open(os.path.join(d, m['file']), 'w').write(m['text'])
        for c in CHECKS.get(m['file'], []):
            env = dict(os.environ, VERIF_REPO=d, VERIF_QUICK_S=str(qs), VERIF_SHARDS=str(shards), VERIF_COV='0')
            try:
                p = subprocess.run([PY, 'run.py', 'check', c, '--tier', 'quick'], cwd=ROOT, env=env, capture_output=True, text=True, timeout=900)
                keys = [l.strip().split(']')[0].lstrip('[') for l in p.stdout.splitlines() if l.startswith('  [')]
                res[c] = dict(rc=p.returncode, keys=keys[:2])
                if p.returncode == 1:
                    break       # caught: no need to run the remaining checks
            except subprocess.TimeoutExpired:
                res[c] = dict(rc='timeout', keys=[])
    finally:
        shutil.rmtree(d, ignore_errors=True)
    return m['id'], res


def checks(jobs, qs=6, shards=2):
    muts = {m['id']: m for m in json.load(open(os.path.join(STATE, 'mutants.json')))}
    tests_ = json.load(open(os.path.join(STATE, 'tests.json')))
    path = os.path.join(STATE, 'checks.json')
    done = json.load(open(path)) if os.path.exists(path) else {}
    todo = [muts[i] for i, v in tests_.items() if v['survives'] and i not in done]
    with concurrent.futures.ThreadPoolExecutor(max_workers=jobs) as ex:
        for k, (mid, res) in enumerate(ex.map(check_one, [(m, qs, shards) for m in todo])):
            done[mid] = res
            if k % 10 == 0:
                json.dump(done, open(path, 'w'))
                caught = sum(1 for r in done.values() if any(c['rc'] == 1 for c in r.values()))
                print(k, len(todo), 'caught so far', caught, 'of', len(done), flush=True)
    json.dump(done, open(path, 'w'))


def recheck_one(args):
    m, todo = args
    d = make_copy()
    res = {}
    try:
        open(os.path.join(d, m['file']), 'w').write(m['text'])
        for c in todo:
            env = dict(os.environ, VERIF_REPO=d, VERIF_QUICK_S='12', VERIF_SHARDS='8', VERIF_COV='0')
            try:
                p = subprocess.run([PY, 'run.py', 'check', c, '--tier', 'quick'], cwd=ROOT, env=env, capture_output=True, text=True, timeout=1200)
                keys = [l.strip().split(']')[0].lstrip('[') for l in p.stdout.splitlines() if l.startswith('  [')]
                res[c] = dict(rc=p.returncode, keys=keys[:2])
                if p.returncode == 1:
                    break
            except subprocess.TimeoutExpired:
                res[c] = dict(rc='timeout', keys=[])
    finally:
        shutil.rmtree(d, ignore_errors=True)
    return m['id'], res


EXTRA = {'droop/record.py': ['C07', 'C03', 'C09'], 'droop/rules/mpls.py': ['C17'], 'droop/rules/scotland.py': ['C07', 'C03'],
         'droop/rules/cfer.py': ['C03', 'C04'], 'droop/rules/meek_prf.py': ['C03', 'C04']}


def recheck(jobs):
    "uncaught survivors: repeat the inconclusive (exit 2) checks and the targeted extras at proper strength (8 shards, 12 s)"
    muts = {m['id']: m for m in json.load(open(os.path.join(STATE, 'mutants.json')))}
    done = json.load(open(os.path.join(STATE, 'checks.json')))
    path = os.path.join(STATE, 'recheck.json')
    re_ = json.load(open(path)) if os.path.exists(path) else {}
    work = []
    for i, r in done.items():
        if any(c['rc'] == 1 for c in r.values()) or i in re_:
            continue
        if i.startswith('Droop.py:1') and int(i.split(':')[1]) >= 100:
            continue        # the __main__ block / usage text
        todo = [c for c, v in r.items() if v['rc'] == 2] + [c for c in EXTRA.get(muts[i]['file'], [])]
        todo = list(dict.fromkeys(todo))
        if todo:
            work.append((muts[i], todo))
    with concurrent.futures.ThreadPoolExecutor(max_workers=jobs) as ex:
        for k, (mid, res) in enumerate(ex.map(recheck_one, work)):
            re_[mid] = res
            json.dump(re_, open(path, 'w'))
            print(k, len(work), mid, {c: v['rc'] for c, v in res.items()}, flush=True)


def again_one(args):
    m, todo = args
    d = make_copy()
    res = {}
    try:
        open(os.path.join(d, m['file']), 'w').write(m['text'])
        for c in todo:
            env = dict(os.environ, VERIF_REPO=d, VERIF_QUICK_S='10', VERIF_SHARDS='4', VERIF_COV='0')
            try:
                p = subprocess.run([PY, 'run.py', 'check', c, '--tier', 'quick'], cwd=ROOT, env=env, capture_output=True, text=True, timeout=1200)
                keys = [l.strip().split(']')[0].lstrip('[') for l in p.stdout.splitlines() if l.startswith('  [')]
                res[c] = dict(rc=p.returncode, keys=keys[:2])
                if p.returncode == 1:
                    break
            except subprocess.TimeoutExpired:
                res[c] = dict(rc='timeout', keys=[])
    finally:
        shutil.rmtree(d, ignore_errors=True)
    return m['id'], res


def again(jobs):
    "survivors no check caught so far, once more against the current machinery (4 shards x 10 s); files changed in /repo since `gen` are skipped"
    muts = {m['id']: m for m in json.load(open(os.path.join(STATE, 'mutants.json')))}
    done = json.load(open(os.path.join(STATE, 'checks.json')))
    rpath = os.path.join(STATE, 'recheck.json')
    re_ = json.load(open(rpath)) if os.path.exists(rpath) else {}
    path = os.path.join(STATE, 'again.json')
    ag = json.load(open(path)) if os.path.exists(path) else {}
    stale = set(os.environ.get('MUT_STALE', 'droop/profile.py').split(','))
    work = []
    for i, r in done.items():
        allr = list(r.values()) + list(re_.get(i, {}).values())
        if any(c['rc'] == 1 for c in allr) or i in ag or muts[i]['file'] in stale:
            continue
        if i.startswith('Droop.py:') and int(i.split(':')[1]) >= 100:
            continue
        todo = list(dict.fromkeys(CHECKS.get(muts[i]['file'], []) + EXTRA.get(muts[i]['file'], [])))
        if todo:
            work.append((muts[i], todo))
    print(len(work), 'survivors to run', flush=True)
    with concurrent.futures.ThreadPoolExecutor(max_workers=jobs) as ex:
        for k, (mid, res) in enumerate(ex.map(again_one, work)):
            ag[mid] = res
            json.dump(ag, open(path, 'w'))
            print(k, len(work), mid, '|', muts[mid]['src'], '|', {c: v['rc'] for c, v in res.items()}, flush=True)


def report():
    muts = {m['id']: m for m in json.load(open(os.path.join(STATE, 'mutants.json')))}
    tests_ = json.load(open(os.path.join(STATE, 'tests.json')))
    done = json.load(open(os.path.join(STATE, 'checks.json')))
    surv = [i for i, v in tests_.items() if v['survives']]
    rpath = os.path.join(STATE, 'recheck.json')
    re_ = json.load(open(rpath)) if os.path.exists(rpath) else {}
    for i, r in re_.items():
        done[i] = dict(done.get(i, {}), **{c + "'": v for c, v in r.items()})
    caught = [i for i in done if any(c['rc'] == 1 for c in done[i].values())]
    print('mutants %d, killed by the test suite %d, survivors %d, survivors judged %d, caught by a check %d' % (
        len(tests_), len(tests_) - len(surv), len(surv), len(done), len(caught)))
    for i in sorted(done):
        if i not in caught:
            print('UNCAUGHT', i, '|', muts[i]['src'], '|', {c: r['rc'] for c, r in done[i].items()})


if __name__ == '__main__':
    cmd = sys.argv[1]
    jobs = int(sys.argv[sys.argv.index('--jobs') + 1]) if '--jobs' in sys.argv else 6
    if cmd == 'gen':
        gen()
    elif cmd == 'tests':
        tests(jobs)
    elif cmd == 'checks':
        checks(jobs)
    elif cmd == 'recheck':
        recheck(jobs)
    elif cmd == 'again':
        again(jobs)
    elif cmd == 'report':
        report()
