#!/usr/bin/env python3
"""
Confirm each independently written seeded change (patch.diff + demo.py [+ notes.md]) and keep it under /verif/seeded/<id>/ with meta.json:
  - the patch applies to a scratch copy of /repo's working tree
  - the pinned test suite passes on the patched copy
  - the demonstration fails on the patched copy and passes on the clean copy
  - the registered quick check of the property it breaks is run against the patched copy (exit code, first lines recorded)
usage: tools/adopt_seeds.py <seeds-root> [--only C07] [--tag r2]
"""
import os, sys, json, subprocess, shutil, re
ROOT = os.path.dirname(os.path.dirname(os.path.abspath(__file__)))
PY = '/venv/bin/python'

def main(argv):
    src = argv[0]
    only = None
    tag = ''
    args = argv[1:]
    while args:
        a = args.pop(0)
        if a == '--only': only = args.pop(0).split(',')
        elif a == '--tag': tag = args.pop(0)
    props = {json.loads(l)['id']: json.loads(l) for l in open(os.path.join(ROOT, 'properties.jsonl'))}
    for prop in sorted(os.listdir(src)):
        if only and prop not in only:
            continue
        for v in sorted(os.listdir(os.path.join(src, prop))):
            d = os.path.join(src, prop, v)
            if not os.path.exists(os.path.join(d, 'patch.diff')):
                continue
            if not os.path.isdir(d):
                continue
            name = '%s-%s%s' % (prop, tag, v)
            area = None
            if prop not in props:
                # a change written against an area of the code, not a property: the property it breaks is named on the first line of its notes
                first = open(os.path.join(d, 'notes.md')).readline() if os.path.exists(os.path.join(d, 'notes.md')) else ''
                ids = re.findall(r'C[0-9][0-9]', first)
                if not ids:
                    print(prop, v, 'no "breaks: Cnn" line'); continue
                area, prop_dir = prop, prop
                prop = ids[0]
                name = '%s-%s%s%s' % (prop, tag, area.lower(), v)
            env = dict(os.environ, VERIF_QUICK_S=os.environ.get('VERIF_QUICK_S', '20'))
            p = subprocess.run([PY, os.path.join(ROOT, 'tools', 'seedtest.py'), d, '--checks', prop, '--seeds', '0,1,2'], capture_output=True, text=True, env=env)
            try:
                res = json.loads(p.stdout[p.stdout.index('{'):])
            except ValueError:
                print(name, 'seedtest failed', p.stdout[-300:], p.stderr[-300:]); continue
            confirmed = bool(res.get('patch_applies') and res.get('tests_pass') and res.get('demo_clean_rc') == 0 and res.get('demo_mutant_rc') not in (0, None))
            caught = any(c['rc'] == 1 for c in res.get('checks', {}).values())
            out = os.path.join(ROOT, 'seeded', name)
            os.makedirs(out, exist_ok=True)
            for f in ('patch.diff', 'demo.py', 'notes.md'):
                if os.path.exists(os.path.join(d, f)):
                    shutil.copy(os.path.join(d, f), os.path.join(out, f))
            notes = open(os.path.join(d, 'notes.md')).read() if os.path.exists(os.path.join(d, 'notes.md')) else ''
            needs = ''
            m = re.search(r'(?is)(what (?:is )?need(?:ed|s)?[^\n]*\n|needs?[^\n]*manifest[^\n]*\n|trigger[^\n]*\n)(.{0,900})', notes)
            if m:
                needs = (m.group(1) + m.group(2)).strip()[:900]
            meta = dict(
                id=name, breaks_property=prop, written_against_area=area, property_title=props[prop]['title'],
                origin='written by an independent sub-agent given only the property text and a scratch worktree of /repo (nothing from /verif)',
                needs_to_manifest=needs or 'see notes.md',
                confirmed=confirmed,
                what_was_run=dict(
                    patch_applies=res.get('patch_applies'), pinned_tests_on_patched_copy=res.get('tests_tail'),
                    demo_on_clean_copy_exit=res.get('demo_clean_rc'), demo_on_patched_copy_exit=res.get('demo_mutant_rc'),
                    demo_output_tail=(res.get('demo_mutant_tail') or '')[-300:],
                    own_property_quick_check={k: dict(exit=c['rc'], seconds=c['s'], lines=c['lines'][:2]) for k, c in res.get('checks', {}).items()}),
                caught_by_own_property_check=caught,
            )
            with open(os.path.join(out, 'meta.json'), 'w') as f:
                json.dump(meta, f, indent=1)
                f.write('\n')
            print('%-8s confirmed=%s caught=%s %s' % (name, confirmed, caught, {k: c['rc'] for k, c in res.get('checks', {}).items()}), flush=True)
            if area is not None:
                prop = area

if __name__ == '__main__':
    main(sys.argv[1:])
