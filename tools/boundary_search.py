#!/venv/bin/python
"""
Boundary catalogue search (an offline tool, not a check).

Runs tiny random elections on the CURRENT /repo tree with a monitor on the comparison operators of the value classes.
Whenever a rule compares two values that are exactly equal (the one situation in which `<` and `<=`, `>` and `>=` part ways)
the election is filed under the comparing site (rule, file, line, operator, operands zero or not).  A few elections per site
are kept in vf/data/boundary_catalogue.json; the trace checks replay them as part of their workload (vf/stream.py), so a
comparison that is right except on equality is exercised on equality.  The elections are ordinary inputs: nothing in a check
depends on the sites recorded here, they only say why an entry was kept.

usage: tools/boundary_search.py [--seconds N] [--workers N] [--merge]      (merge: add to the existing catalogue)
"""
import os, sys, json, random, time, subprocess, argparse, signal

ROOT = os.path.dirname(os.path.dirname(os.path.abspath(__file__)))
sys.path.insert(0, ROOT)
OUT = os.path.join(ROOT, 'vf', 'data', 'boundary_catalogue.json')
PER_KEY = 3

CONFIGS = [
    dict(rule='wigm-prf'), dict(rule='wigm-prf-batch'), dict(rule='scotland'), dict(rule='mpls'), dict(rule='cfer'), dict(rule='cfer-batch'),
    dict(rule='meek-prf'), dict(rule='qpq'),
    dict(rule='wigm', arithmetic='fixed', precision=4), dict(rule='wigm', arithmetic='fixed', precision=4, defeat_batch='zero'),
    dict(rule='wigm', arithmetic='fixed', precision=2), dict(rule='wigm', arithmetic='fixed', precision=6, integer_quota=True),
    dict(rule='wigm', arithmetic='integer'),
    dict(rule='meek', arithmetic='fixed', precision=4, omega=2), dict(rule='meek', arithmetic='fixed', precision=6, omega=4, defeat_batch='none'),
    dict(rule='warren', arithmetic='fixed', precision=4, omega=2), dict(rule='warren', arithmetic='fixed', precision=6, omega=3),
]


def tiny(rng):
    "a tiny strict-ranking election: round numbers and repeated shapes, so that exact coincidences are likely"
    from vf import gen
    nc = rng.randint(3, 6)
    ns = rng.randint(1, min(4, nc - 1))
    cands = list(range(1, nc + 1))
    lines = []
    nl = rng.randint(3, 8)
    mults = [rng.choice([1, 2, 3, 4, 5, 6, 8, 9, 10, 12, 15, 20]) for _ in range(3)]
    for _ in range(nl):
        r = rng.sample(cands, rng.randint(1, min(nc, 4)))
        lines.append((rng.choice(mults + [1, 2, 3]), r))
    s = gen.base(nc, ns, lines, rng)
    s['family'] = 'B'
    if rng.random() < 0.15:
        s['withdrawn'] = [rng.choice(cands)]
    if rng.random() < 0.15:
        s['undeclared'] = [rng.choice(cands)]
    return gen.make_valid(s, rng)


def worker(seed, seconds, path):
    global CONFIGS
    only = os.environ.get('BOUNDARY_ONLY')
    if only:
        CONFIGS = [c for c in CONFIGS if only in ' '.join('%s=%s' % kv for kv in sorted(c.items()))]
    os.environ.setdefault('VERIF_REPO', '/repo')
    from vf import gen, harness
    from vf.harness import Fixed, Guarded, ElectionProfile, Election, REPO
    rng = random.Random(seed)
    hits = []           # (key, raw) of the current election
    rules_dir = os.path.join(REPO, 'droop') + os.sep
    values_dir = os.path.join(REPO, 'droop', 'values') + os.sep

    def install(cls):
        for name in ('__lt__', '__le__', '__gt__', '__ge__', '__eq__', '__ne__'):
            orig = cls.__dict__[name]

            def w(self, other, orig=orig, name=name):
                try:
                    ov = other._value
                except AttributeError:
                    return orig(self, other)
                if self._value == ov:
                    f = sys._getframe(1)
                    while f is not None and (f.f_code.co_filename.startswith(values_dir) or not f.f_code.co_filename.startswith(rules_dir)):
                        f = f.f_back
                    if f is not None:
                        hits.append(((os.path.relpath(f.f_code.co_filename, REPO), f.f_lineno, name, ov == 0), None))
                return orig(self, other)
            setattr(cls, name, w)
    install(Fixed)
    install(Guarded)
    found = {}
    n = 0
    t_end = time.time() + seconds
    import io, contextlib
    while time.time() < t_end:
        s = tiny(rng)
        cfg = dict(rng.choice(CONFIGS))
        blt = gen.render(s)
        del hits[:]
        try:
            with contextlib.redirect_stdout(io.StringIO()), harness.cpu_budget(2.0):
                E = Election(ElectionProfile(data=blt), dict(cfg))
                E.count()
        except BaseException as e:      # pylint: disable=broad-except
            if isinstance(e, KeyboardInterrupt):
                raise
            signal.setitimer(signal.ITIMER_VIRTUAL, 0)
            continue
        n += 1
        size = sum(len(r) for _, r in s['lines']) + s['nc']
        for key, _ in set(hits):
            k = json.dumps([' '.join('%s=%s' % kv for kv in sorted(cfg.items()))] + list(key))
            lst = found.setdefault(k, [])
            if len(lst) < PER_KEY or size < lst[-1][0]:
                lst.append((size, dict(options=cfg, s={x: s[x] for x in s if x != 'coalition'})))
                lst.sort(key=lambda t: t[0])
                del lst[PER_KEY:]
    json.dump(dict(n=n, found=found), open(path, 'w'))


def main():
    ap = argparse.ArgumentParser()
    ap.add_argument('--seconds', type=int, default=240)
    ap.add_argument('--workers', type=int, default=14)
    ap.add_argument('--merge', action='store_true')
    ap.add_argument('--seed', type=int, default=0)
    ap.add_argument('--only', default='', help='substring of the configuration description, e.g. "precision=4 rule=wigm"')
    ap.add_argument('--worker', nargs=3)
    a = ap.parse_args()
    if a.worker:
        worker(int(a.worker[0]), int(a.worker[1]), a.worker[2])
        return
    if a.only:
        os.environ['BOUNDARY_ONLY'] = a.only
    tmp = os.path.join(ROOT, 'out', 'boundary_search')
    os.makedirs(tmp, exist_ok=True)
    procs = []
    for w in range(a.workers):
        path = os.path.join(tmp, 'w%d.json' % w)
        procs.append((subprocess.Popen([sys.executable, os.path.abspath(__file__), '--worker', str(a.seed * 1000 + w), str(a.seconds), path], cwd=ROOT), path))
    merged = {}
    if a.merge and os.path.exists(OUT):
        for e in json.load(open(OUT))['entries']:
            merged.setdefault(json.dumps(e['site']), []).append((e['size'], dict(options=e['options'], s=e['s'])))
    total = 0
    for p, path in procs:
        p.wait()
        if not os.path.exists(path):
            continue
        d = json.load(open(path))
        total += d['n']
        for k, lst in d['found'].items():
            merged.setdefault(k, []).extend([(sz, e) for sz, e in lst])
        os.unlink(path)
    entries = []
    for k, lst in sorted(merged.items()):
        seen = set()
        lst.sort(key=lambda t: t[0])
        kept = 0
        for sz, e in lst:
            h = json.dumps(e, sort_keys=True)
            if h in seen:
                continue
            seen.add(h)
            entries.append(dict(site=json.loads(k), size=sz, options=e['options'], s=e['s']))
            kept += 1
            if kept >= PER_KEY:
                break
    os.makedirs(os.path.dirname(OUT), exist_ok=True)
    json.dump(dict(_comment='elections in which a rule compared two exactly equal values at the named site (rule, file, line, operator, operands zero); '
                            'found by tools/boundary_search.py on the tree at the time; they are ordinary inputs replayed by the trace checks',
                   elections_searched=total, entries=entries), open(OUT, 'w'), indent=0)
    sites = {}
    for e in entries:
        sites.setdefault(tuple(e['site'][:1]), set()).add(tuple(e['site'][1:]))
    print('searched %d elections; %d entries over %d sites' % (total, len(entries), len(merged)))
    for r, ss in sorted(sites.items()):
        print('  %-60s %3d sites, %3d with non-zero operands' % (r[0], len(ss), len([x for x in ss if not x[3]])))


if __name__ == '__main__':
    main()
