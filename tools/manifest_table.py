"""per-property manifest entries (level, text, trusted base, technique)"""
NOT_YET = {}
CHECKS = {
 'C01': dict(level='exploration', ref='DESIGN.md 3/C01',
    technique='runtime monitoring: hook invariant on withdrawn candidates at every recorded action + final-state oracle + CPU watchdog over generated profiles x rule/arithmetic matrix',
    text='Every generated count (tens of thousands per quick run over all 11 rule names and the arithmetic/option matrix, '
         'weighted towards degenerate, withdrawn/write-in and sure-loser profiles) is executed for real under a CPU budget; '
         'the oracle checks seats filled = min(seats, electable), every eligible candidate decided exactly once, withdrawn '
         'candidates inert at every snapshot, and that no exception escapes. A quarter of the cases hand the configuration over another way (ballot-file [droop] options, split file/caller, an Options object, no options argument), a tenth come from the boundary catalogue (elections in which a rule compared two exactly equal values), one case in eight carries hostile candidate names, and every shard opens with elections of 257-330 candidates under the Gregory-family rules. Sampling, not enumeration: holds on what was run.',
    note='The electable set is read from the ballot file text, not from the package\'s reading of it. Trusts the generator to produce valid profiles (parser-rejected ones are counted, not judged); budget overruns '
         'are re-run alone with 20x budget before being reported; meek/warren+rational overruns are not explored by the property\'s own carve-out.'),
 'C02': dict(level='exploration', ref='DESIGN.md 3/C02',
    technique='runtime monitoring: conservation invariant evaluated on raw (scaled-integer / Fraction) values at every recorded action via an outside hook on ElectionRecord.action',
    text='At every recorded action of every generated count the monitor sums the live raw tallies plus non-transferable or residual '
         'votes and compares with the ballot total: never above, below by at most 2 ulp x ballots x surplus transfers so far '
         '(Gregory family), exactly equal after any distribution (Meek family) and under rational arithmetic; QPQ ballot '
         'fractions must sum to the number elected by quotient at quiescent snapshots; no negative tally/NT/residual. '
         'Hundreds of thousands of snapshots per quick run; holds on what was run.',
    note='Known finding C02/meekprf-stale-snapshot-after-exclusion (classifier: shortfall equals the tally held by the candidates excluded since the last distribution). '
         'Surplus transfers counted from state diffs. Equal-rank ballots only under meek/warren.'),
 'C09': dict(level='exploration', ref='DESIGN.md 3/C09',
    technique='runtime monitoring: transition-relation checker over consecutive recorded snapshots (status, pending flag, seat bounds, round numbers)',
    text='Every pair of consecutive snapshots of every generated count is checked against the allowed transitions '
         '(hopeful->elected, hopeful->defeated, QPQ restart only), pending-flag discipline, withdrawn immutability, '
         'elected <= seats, elected + continuing electable >= fillable seats, monotone rounds. ~600k transitions per quick run.',
    note='QPQ restart applied virtually at each round action following a defeat because re-election within the restart round is invisible in snapshots.'),
 'C04': dict(level='exploration', ref='DESIGN.md 3/C04',
    technique='runtime monitoring: offline checker over the traced history recomputing every recorded quota from raw ballots/votes and checking quota-holding predicates at exclusion pre-states',
    text='For every snapshot of every generated count the recorded quota is recomputed with the prescribed formula (exact / truncated+ulp / '
         'floor+1; Meek family from the recorded votes, which must equal the votes still credited right after a distribution; QPQ from the live '
         'ballots); at the pre-state of every exclusion neither the excluded nor any other hopeful candidate may hold the quota (mpls certain-loser '
         'step and write-ins excepted); every hopeful seen holding the quota must end elected. Workload weighted to ballot totals divisible by '
         'seats+1 and tallies landing on the quota.',
    note='Guarded with guard digits is treated as exact (strict >, quota truncated at p+g). Pre-state rules per DESIGN 2.1. QPQ: exclusion clauses only (one election per stage).'),
 'C06': dict(level='exploration', ref='DESIGN.md 3/C06',
    technique='runtime monitoring: hook invariant over live ballots (position, raw weight) and candidates at every recorded action, plus bracketing checks across each surplus/exclusion transfer',
    text='At every recorded action of every generated Gregory-family count: tally == exact sum of standing ballot values for every hopeful/pending '
         'candidate; no ballot has passed over a hopeful candidate or stands on an already-transferred one; weights within [0,1] and non-increasing. '
         'Across each surplus transfer each re-weighted ballot lies in (w*s/v - 2ulp, w*s/v] (exact under rational), other ballots are untouched and '
         'the elected tally equals the quota; across exclusion transfers no weight changes. ~100k re-weightings per quick run, chains up to 6 deep.',
    note='"first candidate not yet transferred" weakened to "no earlier-ranked hopeful and current candidate not yet transferred" because transfer() must skip elected-pending candidates.'),
 'C07': dict(level='exploration', ref='DESIGN.md 3/C07',
    technique='runtime monitoring: offline checker over the traced history (lowest / sure-loser / largest-surplus predicates, tie logging and tie order, Scottish prior-stage rule) + relational monitor over two executions with different tie orders',
    text='Every exclusion group of every generated count is judged against its pre-state; every one-at-a-time surplus choice must be the largest; every tie '
         'must be logged with the right tied set and resolved by tie order (Scotland: most recent differing stage, then lot), and no tie may be logged without '
         'one. A fifth of the Meek-family cases run under very coarse guarded arithmetic (precision 0-2). Each profile is re-counted with another tie order; tie-free records must be identical in actions, raw snapshots, report, dump and json.',
    note='Exclusions whose candidates differ by less than twice the guarded tolerance are not evaluated as to the tied set (non-transitive comparison), but the excluded candidate itself must stand within one tolerance (plus the Meek surplus) of the true minimum. Scottish shared-extreme sets: any member accepted.'),
 'C08': dict(level='exploration', ref='DESIGN.md 3/C08',
    technique='runtime monitoring: hook invariant at the snapshots taken right after a Meek/Warren distribution (conservation on raw values, keep-factor ranges, end-of-iteration discipline); outside counter on the arithmetic div to measure iteration depth',
    text='At every fresh snapshot (meek/warren: iterate and end; meek-prf: begin/end and elect/tie/defeat before any exclusion of the round) of every '
         'generated Meek-family count: votes + residual == ballots on raw values, nothing negative, keep factor 1 / 0 / in (0,1] by status; every '
         'omega exit has surplus <= omega (meek-prf < omega) or a logged stable state; exclusions only after an end of iteration. Includes equal-rank '
         'ballots (quota-creep recipe), more seats than supported candidates, rounds needing 300-2000 distributions (20-126 seats), fixed p3-12, guarded grids, tiny rational.',
    note='Known finding C08/meek-guarded-kf-underflow (elected keep factor truncates to exactly 0 under guarded arithmetic with guard digits; classifier requires raw kf == 0, guarded, guard>0, parametric meek/warren).'),
 'C18': dict(level='exploration', ref='DESIGN.md 3/C18',
    technique='runtime monitoring: offline checker of the recorded history against live snapshots and announcement rules, plus tolerant parsers cross-checking report, dump and JSON against the record',
    text='For every generated count: record actions == observed hook events (raw values), begins with the start of the count and ends with end, each elect/defeat names a '
         'candidate whose status (or pending flag) changes there and every status change is so announced, end == E.elected/E.defeated; dump rows/columns and every field, '
         'json.loads(json()) == stringified record (millions of leaves per run), report blocks (status lines and totals recomputed from raw tallies) all agree.',
    note='Single-value printing is C14\'s; candidates are told apart by id (a quarter of the cases use names that read like the package\'s own words or format directives, half of those with namesakes; names are free of ", " / ": " / brackets, which the tie-message parsing relies on); every candidate holding a status must have dump columns; QPQ restart applied virtually. Report parsed tolerantly by labels, not byte-compared.'),
 'C12': dict(level='exploration', ref='DESIGN.md 3/C12',
    technique='runtime contracts (postconditions against a fractions.Fraction shadow) wrapped from outside around every public operator and classmethod of Fixed and Rational; exhaustive small grid + random operands + contracts left on during real counts',
    text='Every call of +,-,*,/,//,__div__,mul,div,muldiv (both roundings),neg,pos,abs,bool,six comparisons,min on Fixed and of the arithmetic operators '
         '(incl. reflected), mul/div/muldiv on Rational is checked against exact rational arithmetic: exactness, floor rounding, +1 ulp only when inexact and '
         'round=up, result type, operands not mutated. The grid [-60,60]^2 (+boundaries) and [-13,13]^3 x precision 0..4 is swept completely; random operands to 10^40 (Rational: also operands closer than a double resolves or beyond its range; min and the six comparisons decided by integer cross-multiplication; operands of 100-700 digits), '
         'precision to 30; an exception on valid operands is a violation; tens of millions of in-situ evaluations inside real counts per quick run.',
    note='Trusted shadow: Python ints and fractions.Fraction. Zero divisors not judged. Small grid exhaustive; everything else sampled.'),
 'C13': dict(level='exploration', ref='DESIGN.md 3/C13',
    technique='runtime contracts on the Guarded comparison operators (tolerance law; comparison statistics account for every comparison) + relational monitors: Guarded(guard 0) vs Fixed per operation and per count, guarded vs rational counts under the clean-statistics premise',
    text='(a) every Guarded comparison evaluated is checked against the tolerance law; the boundary differences {0,1,geps-1,geps,geps+1,2geps} are swept for all p,g in 0..6. '
         '(b) Guarded(p,0) and Fixed(p) give identical raw results, strings and comparisons on grids/random operands, and identical histories and dumps for wigm/meek/warren counts. '
         '(c) thousands of guarded/rational count pairs (15% built to hold a difference just inside the tolerance): under the premise the action sequences, statuses and every tally/quota (within 10^-p) must agree. '
         '(d) right after every comparison maxDiff/minDiff must cover it; each operator is probed alone after a reset, in both operand orders.',
    note='(d) is a lemma under the third clause (the statistics are what their definition says), keyed guarded:statistics-miss-a-comparison. (c) uses a fixed numeric reading of "no comparison near the tolerance": maxDiff*1e3 <= geps <= minDiff/1e3 and 2*ulp*ballots*actions <= geps/1e3; pairs outside are not evaluated. Rational Meek only on tiny profiles.'),
 'C14': dict(level='exploration', ref='DESIGN.md 3/C14',
    technique='runtime contract on __str__ of Fixed, Guarded and Rational (half-up of the exact value, digit count, underscore, sign, value unchanged), swept around carries and left installed while real counts are rendered',
    text='Every str() of a value object is checked against the exact value rounded half-up at the display digits. All raw values in [-1300,1300] and within 3 of every carry/half-unit '
         'boundary are swept for precision, guard, display in 0..5 (complete for that sub-space); random magnitudes to 10^40 and exact ties +-1 at up to 60 dropped digits; the class must print the configured number of digits (display 0 included); rational ties; every figure printed by report/dump/json of thousands of counts goes through the contract; after a count of another arithmetic class the previous count is rendered again and must read exactly as before.',
    note='Known finding C14/guarded-p0-underscore. Negative exact ties: half-up and half-away-from-zero both accepted. Whether renderings use str() of the recorded value is checked by C18.'),
 'C15': dict(level='exploration', ref='DESIGN.md 3/C15',
    technique='runtime monitoring, round-trip oracle: generated election structure -> adversarial well-formed BLT rendering -> real parser -> every public attribute compared with the structure; invariants of an accepted profile',
    text='~180k feature-rich renderings per quick run (nicknames as references, [tie], -n/[withdrawn]/both, [undeclared], [droop], ballot ids, empty and all-withdrawn '
         'ballots, equal ranks with withdrawn members, names with spaces/#/comment markers/non-ASCII/empty, source/comment, junk, nested and # comments incl. quoted words '
         'inside comments and comments inside option lists, random layout, BOM via path=, 255/256/257/300 candidates with [tie] and nicknames, ballot ids differing only in blanks, number-like nicknames such as 0_3 and +2, several [undeclared] items; a file corrected in place - same path, same length, read again at once) are parsed by the real ElectionProfile and compared attribute by attribute.',
    note='Well-formedness is the grammar of DESIGN Appendix B; the renderer never emits forms outside it. Expectation model (withdrawn removal, dropped ballots, equal-rank demotion) is ~40 lines in vf/blt.py.'),
 'C16': dict(level='exploration', ref='DESIGN.md 3/C16',
    technique='runtime monitoring with hostile inputs: complete prefix / single-token-mutation sets of seed files, token soups and arbitrary unicode fed to the real parser and the 11 constructors; outcome oracle {valid profile, ElectionProfileError}; CPU watchdog',
    text='~1.6M texts per quick run: every token/character prefix and every single-token delete/duplicate/swap/replace/insert (70-token hostile alphabet) of 5 fixed and ~150 generated seed files '
         '(complete per seed), plus soups, unicode and extreme headers (candidate counts and ids around 2^32, 2^64, 10^40). Any exception other than ElectionProfileError, any accepted profile breaking the invariants of a valid election, any '
         'constructor failure on an accepted option-free profile, or a confirmed hang is a violation.',
    note='Mutation sets are exhaustive per seed file only; the space of all strings is sampled. Budget overruns are re-run alone with 20x budget before being reported.'),
 'C10': dict(level='exploration', ref='DESIGN.md 3/C10',
    technique='relational runtime monitor over two real executions of the same ballots in two presentations (permuted lines, split/merged multipliers, random layout and comments, nicknames); compared on traced raw snapshots, dump, report, json',
    text='~15k pairs per quick run over all rules and arithmetics (equal-rank profiles under meek/warren included): the variant must produce the same action list with the same raw tallies, '
         'the same dump and report, and the same JSON apart from cdict.nick. Line ends include form feed, NEL and U+2028; nicknames include number-like ones.',
    note='Known finding C10/guarded-stats-depend-on-multipliers (classifier: only the maxDiff/minDiff lines / arithmetic_report differ, arithmetic guarded, variant split or merged multipliers).'),
 'C11': dict(level='exploration', ref='DESIGN.md 3/C11',
    technique='relational runtime monitor over two real executions: a profile vs its renumbering by a random permutation (winners and final tallies by name), and withdrawn-marked vs candidate-deleted profiles (full traced record by name)',
    text='~28k renumbered pairs and ~28k withdrawn/deleted pairs per quick run over all rules and arithmetics; withdrawn sets biased to candidates holding first preferences; equal-rank profiles included for meek/warren; 15% of the pairs build both elections before counting either.',
    note='Renumbered pairs whose guarded statistics show a comparison within 10^3 of the tolerance are not evaluated (non-transitive comparison).'),
 'C17': dict(level='exploration', ref='DESIGN.md 3/C17',
    technique='runtime monitoring: complete enumeration of {absent,v1,v2} x {file layer, caller layer} per option name and rule against a precedence table, recorded layers, observable arithmetic/rule attributes and report header; relational monitor for statutory counts under junk options',
    text='All 891 layer assignments (11 rules x 9 option names x 9 layer combinations, file layer parsed from real [droop ...] text) are checked for effective value, recorded layers, '
         'observable effect and the Unused/Overridden header lines (a third of them with the file layer written as two [droop] items; Options objects built in one go or piecemeal, the file layer also through update(file_options=True)); a refusal (UsageError) is accepted only if the effective value alone is refused too, and ballot-file values the rule would refuse are enumerated under an acceptable caller value; ~17k statutory count pairs with junk options from caller / file / both must be identical in actions, raw snapshots, dump and winners.',
    note='The declared/forced option tables are transcribed from the rules; assignments refused with UsageError are outside the claim. Enumeration complete for the stated value sets only.'),
 'C19': dict(level='fault_enumeration', ref='DESIGN.md 3/C19',
    technique='fault injection by sys.monitoring: KeyboardInterrupt raised from a LINE callback at the k-th executed line of package code during Election.count(), for every k of each swept count; renderers and prefix property checked after each',
    text='For each swept (profile, rule, options) - at least one per rule name in the quick tier - every line event of the count (2-5 thousand per count) is used once as the interruption '
         'point (complete enumeration for that count, ~48k injections per quick run; a count too long for the tier is swept at evenly spaced points instead, because re-running up to every point costs the square of its length - both kinds are counted in the evidence): report(True), dump(True) and json(True) must succeed, carry the marker exactly once and the recorded '
         'actions must be value-equal to a prefix of the uninterrupted record. A sample is driven through Droop.main with all report/dump/json combinations. A third of the swept elections carry hostile candidate names (the marker\'s own word, brace and percent directives); the marker is judged on the structure of the record.',
    note='Interruption points are statement starts in files under droop/ (pure Python: no finer grain is observable). Enumeration is exhaustive per swept count, sampled over counts.'),
 'C20': dict(level='exploration', ref='DESIGN.md 3/C20',
    technique='relational runtime monitor over process histories: byte comparison of report+dump+json of a target election after random in-process histories of other elections against a reference rendered in a fresh subprocess; recount of the same profile object',
    text='~900 targets x 6 histories per quick run (1-12 earlier elections of all rules/arithmetics, biased to end on the target\'s arithmetic class with different precision/guard/display, '
         'incl. equal precision+guard sums with different splits, guard 0, display above precision): renderings must equal the fresh-process reference byte for byte (a target that ends in an error there must end in the same kind of error); a quarter of all elections are configured in the ballot file only and built as Election(profile); 8% of targets run at 4400-5200 digits; the same profile object recounted must reproduce itself; Droop.main is called in sequences with one reused options dict and with equal-timestamp ballot files copied over one path, each call compared with the same file on its own.',
    note='Scope as in the property: each election is constructed, counted and rendered before the next is constructed.'),
 'C05': dict(level='exploration', ref='DESIGN.md 3/C05',
    technique='runtime monitoring: offline oracle over (ballots, winners) of completed real counts - solid-coalition support counted conservatively for every prefix set against k x initial quota + the stated allowance; one-seat majority clause',
    text='After each completed count every candidate set with solid support (every set of first-|S| preferences of some ballot) and every k is checked: support > k*q0 + 2*ulp*ballots*candidates '
         'implies at least k members elected; one seat: a first-preference majority wins. Workload built around coalitions sitting at k quotas -1..+3 ballots (also split evenly over their members), '
         'steered to zero-vote batches, stable-state exclusions and single defeats; one case in six is Meek/Warren configured only in part (defaults fill the rest); ~130k binding obligations, ~55k within 2 ballots of the threshold per quick run.',
    note='Known finding C05/warren-premature-stable-state (classifier: rule warren and an "Iterate (stable)" action in the history). mpls only without undeclared write-ins. Strict rankings only.'),
 'C03': dict(level='exploration', ref='DESIGN.md 3/C03 and Appendix A',
    technique='runtime monitoring, history + executable model: the recorded history of each real count, normalised by state diffs, is compared step by step and digit by digit with the history produced by an executable specification written from the rule text; recorded tie-breaks are checked against what the text permits',
    text='~29k statutory counts per quick run (8 rule names; ~210k steps, ~12k ties): step kinds, who, rounds, every raw tally, the non-transferable total, quota, keep factors (PRF Meek), '
         'quotients (QPQ) and winners must equal the specification\'s. The strict text is tried first, then the documented switch subsets; histories needing a switch print the matching known finding, '
         'histories nothing explains are violations. wigm with arithmetic=fixed precision=4 must reproduce wigm-prf (actions, raw snapshots, dump; a quarter of the pairs on exact quota hits, 15% from the boundary catalogue).',
    note='Trusted base: six specifications (~100 lines each) in vf/models/specs.py and their adopted readings; seven known text deviations of the code (C03/text-deviation:*), each a named switch. QPQ counts with quotients within twice the tolerance are not evaluated.'),
}
