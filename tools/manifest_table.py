"""per-property manifest entries (level, text, trusted base, technique)"""
NOT_YET = {}
CHECKS = {
 'C01': dict(level='exploration', ref='DESIGN.md 3/C01',
    technique='runtime monitoring: hook invariant on withdrawn candidates at every recorded action + final-state oracle + CPU watchdog over generated profiles x rule/arithmetic matrix',
    text='Every generated count (tens of thousands per quick run over all 11 rule names and the arithmetic/option matrix, '
         'weighted towards degenerate, withdrawn/write-in and sure-loser profiles) is executed for real under a CPU budget; '
         'the oracle checks seats filled = min(seats, electable), every eligible candidate decided exactly once, withdrawn '
         'candidates inert at every snapshot, and that no exception escapes. Sampling, not enumeration: holds on what was run.',
    note='Trusts the generator to produce valid profiles (parser-rejected ones are counted, not judged); budget overruns '
         'are re-run alone with 20x budget before being reported; meek/warren+rational overruns are not explored by the property\'s own carve-out.'),
 'C02': dict(level='exploration', ref='DESIGN.md 3/C02',
    technique='runtime monitoring: conservation invariant evaluated on raw (scaled-integer / Fraction) values at every recorded action via an outside hook on ElectionRecord.action',
    text='At every recorded action of every generated count the monitor sums the live raw tallies plus non-transferable or residual '
         'votes and compares with the ballot total: never above, below by at most 2 ulp x ballots x surplus transfers so far '
         '(Gregory family), exactly equal after any distribution (Meek family) and under rational arithmetic; QPQ ballot '
         'fractions must sum to the number elected by quotient at quiescent snapshots; no negative tally/NT/residual. '
         'Hundreds of thousands of snapshots per quick run; holds on what was run.',
    note='Known finding C02/meekprf-stale-snapshot-after-exclusion (classifier: shortfall equals the tally held by the candidates excluded since the last distribution). '
         'Surplus transfers counted from state diffs. Equal-rank ballots only under meek/warren.'),
 'C09': dict(level='exploration', ref='DESIGN.md 3/C09',
    technique='runtime monitoring: transition-relation checker over consecutive recorded snapshots (status, pending flag, seat bounds, round numbers)',
    text='Every pair of consecutive snapshots of every generated count is checked against the allowed transitions '
         '(hopeful->elected, hopeful->defeated, QPQ restart only), pending-flag discipline, withdrawn immutability, '
         'elected <= seats, elected + continuing electable >= fillable seats, monotone rounds. ~600k transitions per quick run.',
    note='QPQ restart applied virtually at each round action following a defeat because re-election within the restart round is invisible in snapshots.'),
}
