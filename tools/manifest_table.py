"""per-property manifest entries (level, text, trusted base, technique)"""
NOT_YET = {}
CHECKS = {
 'C01': dict(level='exploration', ref='DESIGN.md 3/C01',
    technique='runtime monitoring: hook invariant on withdrawn candidates at every recorded action + final-state oracle + CPU watchdog over generated profiles x rule/arithmetic matrix',
    text='Every generated count (tens of thousands per quick run over all 11 rule names and the arithmetic/option matrix, '
         'weighted towards degenerate, withdrawn/write-in and sure-loser profiles) is executed for real under a CPU budget; '
         'the oracle checks seats filled = min(seats, electable), every eligible candidate decided exactly once, withdrawn '
         'candidates inert at every snapshot, and that no exception escapes. Sampling, not enumeration: holds on what was run.',
    note='Trusts the generator to produce valid profiles (parser-rejected ones are counted, not judged); budget overruns '
         'are re-run alone with 20x budget before being reported; meek/warren+rational overruns are not explored by the property\'s own carve-out.'),
}
