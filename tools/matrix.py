#!/usr/bin/env python3
"""
Which checks catch which seeded changes: apply each seeded patch to a scratch copy once and run a set of quick checks
against it (short generation budget).  Writes seeded/matrix.json.
usage: tools/matrix.py [--seeds C01-a,C07-b] [--checks C01,C02] [--quick-s 8]
"""
import os, sys, json, subprocess, shutil, time
ROOT = os.path.dirname(os.path.dirname(os.path.abspath(__file__)))
sys.path.insert(0, os.path.join(ROOT, 'tools'))
import seedtest   # noqa
PY = '/venv/bin/python'
TRACE = ['C01', 'C02', 'C03', 'C04', 'C05', 'C06', 'C07', 'C08', 'C09', 'C18']
RELATED = {p: TRACE for p in TRACE}
RELATED.update({'C10': ['C10', 'C15', 'C16', 'C11'], 'C11': ['C11', 'C15', 'C10', 'C07'], 'C12': ['C12', 'C13', 'C14', 'C02'], 'C13': ['C13', 'C12', 'C20', 'C04'],
                'C14': ['C14', 'C18', 'C12'], 'C15': ['C15', 'C16', 'C10', 'C11'], 'C16': ['C16', 'C15', 'C01'], 'C17': ['C17', 'C20', 'C03'],
                'C19': ['C19', 'C18'], 'C20': ['C20', 'C13', 'C17']})

def main(argv):
    only = checks = None
    qs = '8'
    while argv:
        a = argv.pop(0)
        if a == '--seeds': only = argv.pop(0).split(',')
        elif a == '--checks': checks = argv.pop(0).split(',')
        elif a == '--quick-s': qs = argv.pop(0)
    sd = os.path.join(ROOT, 'seeded')
    path = os.path.join(sd, 'matrix.json')
    matrix = json.load(open(path)) if os.path.exists(path) else {}
    for name in sorted(os.listdir(sd)):
        d = os.path.join(sd, name)
        if not os.path.isdir(d) or (only and name not in only):
            continue
        prop = name.split('-')[0]
        cs = checks or RELATED.get(prop, [prop])
        copy = seedtest.make_copy()
        try:
            ok, out = seedtest.apply_patch(copy, os.path.join(d, 'patch.diff'))
            if not ok:
                print(name, 'patch does not apply'); continue
            row = matrix.setdefault(name, {})
            for c in cs:
                env = dict(os.environ, VERIF_REPO=copy, VERIF_QUICK_S=qs, VERIF_COV='0')
                p = subprocess.run([PY, 'run.py', 'check', c, '--tier', 'quick'], cwd=ROOT, env=env, capture_output=True, text=True)
                keys = [l.strip().split(']')[0].lstrip('[') for l in p.stdout.splitlines() if l.startswith('  [')]
                row[c] = dict(exit=p.returncode, keys=keys[:3])
                print('%-8s %s exit=%d %s' % (name, c, p.returncode, keys[:2]), flush=True)
            with open(path, 'w') as f:
                json.dump(matrix, f, indent=1, sort_keys=True)
        finally:
            shutil.rmtree(copy, ignore_errors=True)

if __name__ == '__main__':
    main(sys.argv[1:])
