#!/bin/bash
# tools/sweep.sh "<seeds>" "<tier>" [checks...] : run checks over several seeds, print one line each; non-zero exit if any alarm
seeds=${1:-"1 2 3 7"}; tier=${2:-quick}; shift; shift
checks=${@:-$(python3 -c "import json;print(' '.join(c['property_id'] for c in json.load(open('MANIFEST.json'))['checks']))")}
rc=0
for s in $seeds; do for c in $checks; do
  out=$(VERIF_SEED=$s /venv/bin/python run.py check $c --tier $tier 2>&1); r=$?
  echo "seed=$s $c rc=$r $(echo "$out" | tail -1 | cut -c1-160)"
  if [ $r -ne 0 ]; then rc=1; echo "$out" | grep -E "^(VIOLATION|  \[|INCONCLUSIVE)" | cut -c1-400; fi
done; done
exit $rc
