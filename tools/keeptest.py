#!/usr/bin/env python3
"""
False-alarm test: run the registered quick checks against a change that is meant to KEEP every property
(a refactoring, optimisation or robustness improvement written independently), in a scratch copy of /repo.

  tools/keeptest.py <dir-with-patch.diff> [--all] [--adopt <id>]

The checks run are the ones related to the files the patch touches (the map of tools/mutsweep.py), or all twenty with --all.
Any exit code other than 0 is reported: 1 = the check says VIOLATION (either a false alarm of the check, or the change does
break a property after all - read the witness), 2 = inconclusive.  With --adopt the patch, its notes and the outcome are kept under
/verif/preserving/<id>/.
"""
import os, sys, re, json, shutil
ROOT = os.path.dirname(os.path.dirname(os.path.abspath(__file__)))
sys.path.insert(0, os.path.join(ROOT, 'tools'))
import seedtest      # noqa: E402
import mutsweep      # noqa: E402
PY = '/venv/bin/python'
ALL = ['C%02d' % i for i in range(1, 21)]


def main(argv):
    sd = os.path.abspath(argv[0])
    run_all = '--all' in argv
    adopt = argv[argv.index('--adopt') + 1] if '--adopt' in argv else None
    patch = os.path.join(sd, 'patch.diff')
    files = sorted(set(re.findall(r'^\+\+\+ b/(\S+)', open(patch).read(), re.M)))
    checks = []
    for f in files:
        checks += mutsweep.CHECKS.get(f, []) + mutsweep.EXTRA.get(f, [])
    checks = ALL if run_all or not checks else sorted(set(checks))
    copy = seedtest.make_copy()
    res = dict(files=files, checks={})
    try:
        ok, out = seedtest.apply_patch(copy, patch)
        res['patch_applies'] = ok
        if not ok:
            res['apply_output'] = out[-400:]
        else:
            rc, out = seedtest.sh('%s -m pytest -q -p no:cacheprovider --timeout=900 -x 2>&1 | tail -3' % PY, cwd=copy)
            res['tests_tail'] = out.strip().splitlines()[-1] if out.strip() else ''
            res['tests_pass'] = ' passed' in res['tests_tail'] and 'failed' not in res['tests_tail']
            for c in checks:
                env = dict(os.environ, VERIF_REPO=copy, VERIF_QUICK_S=os.environ.get('VERIF_QUICK_S', '12'), VERIF_SHARDS=os.environ.get('VERIF_SHARDS', '8'),
                           VERIF_COV='0', VERIF_SEED=os.environ.get('VERIF_SEED', '0'))
                rc, out = seedtest.sh('%s run.py check %s --tier quick' % (PY, c), cwd=ROOT, env=env, timeout=3600)
                lines = [l for l in out.splitlines() if l.startswith(('VIOLATION', '  [', 'INCONCLUSIVE'))]
                res['checks'][c] = dict(exit=rc, lines=[l[:400] for l in lines[:4]])
    finally:
        shutil.rmtree(copy, ignore_errors=True)
    res['alarms'] = sorted(c for c, v in res['checks'].items() if v['exit'] != 0)
    if adopt:
        out = os.path.join(ROOT, 'preserving', adopt)
        os.makedirs(out, exist_ok=True)
        for f in ('patch.diff', 'notes.md'):
            if os.path.exists(os.path.join(sd, f)):
                shutil.copy(os.path.join(sd, f), os.path.join(out, f))
        json.dump(dict(id=adopt, origin='written by an independent sub-agent asked for a change that keeps all twenty properties (property texts and a scratch worktree only)',
                       what_was_run=res), open(os.path.join(out, 'meta.json'), 'w'), indent=1)
    print(json.dumps(res, indent=1))
    return 0


if __name__ == '__main__':
    sys.exit(main(sys.argv[1:]))
