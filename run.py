#!/venv/bin/python
"""
Entry point.
  run.py check C07 [--tier quick|thorough] [--seed N]
  run.py replay <path>
  run.py _shard ...          (internal)
Environment: VERIF_SEED, VERIF_TIER, VERIF_REPO (default /repo), VERIF_SHARDS,
VERIF_QUICK_S / VERIF_THOROUGH_S (generation budget per shard).
"""
import os, sys
sys.dont_write_bytecode = True
ROOT = os.path.dirname(os.path.abspath(__file__))
sys.path.insert(0, ROOT)
os.makedirs(os.path.join(ROOT, 'out'), exist_ok=True)


def main(argv):
    if len(argv) < 2:
        print(__doc__)
        return 64
    cmd = argv[1]
    if cmd == '_shard':
        from vf import engine
        prop, tier, seed, shard, nshards, out = argv[2:8]
        engine.shard_main(prop, tier, int(seed), int(shard), int(nshards), out)
        return 0
    if cmd == 'check':
        from vf import engine
        prop = argv[2]
        tier = os.environ.get('VERIF_TIER', 'quick')
        seed = int(os.environ.get('VERIF_SEED', '0') or 0)
        args = argv[3:]
        while args:
            a = args.pop(0)
            if a == '--tier':
                tier = args.pop(0)
            elif a == '--seed':
                seed = int(args.pop(0))
        if tier not in ('quick', 'thorough'):
            tier = 'quick'
        return engine.run_check(prop, tier, seed)
    if cmd == 'replay':
        from vf import engine
        return engine.replay(argv[2])
    if cmd == 'selftest':
        from vf import selftest
        return selftest.main(argv[2:])
    print(__doc__)
    return 64


if __name__ == '__main__':
    sys.exit(main(sys.argv))
