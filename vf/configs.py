"""
Rule x arithmetic x option matrix (DESIGN 2.2).  Options are Python values, as a caller
embedding the package would pass them ('true'/'false' strings are only converted by
Options.parse on the CLI / [droop ...] path, which C17 drives separately).
"""

STATUTORY = ['wigm-prf', 'wigm-prf-batch', 'meek-prf', 'scotland', 'mpls', 'cfer', 'cfer-batch', 'qpq']
PARAMETRIC = ['wigm', 'meek', 'warren']
ALL_RULES = STATUTORY + PARAMETRIC
GREGORY = ['wigm', 'wigm-prf', 'wigm-prf-batch', 'cfer', 'cfer-batch', 'scotland', 'mpls']
MEEKS = ['meek', 'warren', 'meek-prf']


def wigm_config(rng, allow_rational=True):
    o = dict(rule='wigm')
    k = rng.random()
    if k < 0.25:
        pass                                   # default guarded 18+9
    elif k < 0.50:
        o['arithmetic'] = 'guarded'
        o['precision'] = rng.randint(0, 3) if rng.random() < 0.3 else rng.randint(4, 18)
        o['guard'] = rng.randint(0, 9)
    elif k < 0.78:
        o['arithmetic'] = 'fixed'
        o['precision'] = rng.randint(0, 12)
    elif k < 0.86:
        o['arithmetic'] = 'integer'
    elif allow_rational:
        o['arithmetic'] = 'rational'
    if rng.random() < 0.3:
        o['integer_quota'] = True
    if rng.random() < 0.3:
        o['defeat_batch'] = 'zero'
    if rng.random() < 0.15 and o.get('arithmetic') in ('fixed', 'guarded'):
        o['display'] = rng.randint(0, 12)
    return o


def meek_config(rng, allow_rational=False, rule=None):
    o = dict(rule=rule or rng.choice(['meek', 'warren']))
    k = rng.random()
    prec = None
    if k < 0.3:
        prec = 18                               # default guarded 18+9, omega 9
    elif k < 0.6:
        o['arithmetic'] = 'guarded'
        prec = o['precision'] = rng.randint(6, 18)
        o['guard'] = rng.randint(0, 9)
    elif k < 0.95 or not allow_rational:
        o['arithmetic'] = 'fixed'
        prec = o['precision'] = rng.randint(3, 12)
    else:
        o['arithmetic'] = 'rational'
        o['omega'] = rng.randint(2, 4)
    if prec is not None and rng.random() < 0.6:
        o['omega'] = rng.randint(1, prec if o.get('arithmetic') == 'fixed' else max(1, min(prec, 12)))
    if rng.random() < 0.35:
        o['defeat_batch'] = 'none'
    if rng.random() < 0.25 and o.get('arithmetic') in ('fixed', 'guarded'):
        o['display'] = rng.randint(0, o['precision'] + o.get('guard', 0) + 1)      # presentation only: must not touch the count
    return o


def random_config(rng, rules=None, allow_rational=True, meek_rational=False):
    rule = rng.choice(rules or ALL_RULES)
    if rule == 'wigm':
        return wigm_config(rng, allow_rational)
    if rule in ('meek', 'warren'):
        return meek_config(rng, meek_rational, rule)
    return dict(rule=rule)


def describe(o):
    return ' '.join('%s=%s' % (k, o[k]) for k in sorted(o))
