"""
Fresh-process reference for C20: read JSON lines {"blt":..., "options":...} from stdin and answer, for the FIRST line only in
this process, with the renderings of that election.  One process per target, so the reference has no history at all.
"""
import sys, json, io, contextlib

def main():
    line = sys.stdin.readline()
    req = json.loads(line)
    from .harness import ElectionProfile, Election
    out = {}
    try:
        with contextlib.redirect_stdout(io.StringIO()):
            p = ElectionProfile(data=req['blt'])
            E = Election(p) if req['options'] is None else Election(p, dict(req['options']))
            E.count()
            out = dict(report=E.report(), dump=E.dump(), json=E.json())
    except Exception as e:      # pylint: disable=broad-except
        out = dict(error='%s: %s' % (type(e).__name__, e))
    sys.stdout.write(json.dumps(out))

if __name__ == '__main__':
    main()
