"""
Engine: sharding over subprocesses, three-valued verdicts, evidence, replay files,
known-findings matching, exit codes (DESIGN 2.3).
"""
import os, sys, json, time, random, importlib, subprocess, tempfile, shutil, collections, hashlib, traceback

ROOT = os.path.dirname(os.path.dirname(os.path.abspath(__file__)))
PROPS = ['C%02d' % i for i in range(1, 21)]
KNOWN_FILE = os.path.join(ROOT, 'known_findings.json')


def load_monitor(prop):
    return importlib.import_module('vf.monitors.' + prop.lower())


class Ctx:
    "what a monitor's shard() sees"
    def __init__(self, prop, tier, seed, shard, nshards, budget_s):
        self.prop, self.tier, self.seed, self.shard, self.nshards = prop, tier, seed, shard, nshards
        self.quick = tier == 'quick'
        self.t0 = time.monotonic()
        self.deadline = self.t0 + budget_s
        self.budget_s = budget_s
        self.counters = collections.Counter()
        self.nontrivial = set()
        self.shapes = set()
        self.violations = []
        self.nviol = 0
        self.samples = []
        self.evaluations = 0
        self.notes = []

    # -- workload control -------------------------------------------------------------
    def case_rng(self, i):
        return random.Random('%s/%d/%d/%d' % (self.prop, self.seed, self.shard, i))

    def time_left(self):
        return time.monotonic() < self.deadline

    def cases(self, min_cases, max_cases):
        "yield (index, rng): at least min_cases, then until the time budget or max_cases"
        i = 0
        while i < max_cases and (i < min_cases or self.time_left()):
            yield i, self.case_rng(i)
            i += 1

    # -- recording --------------------------------------------------------------------
    def count(self, name, n=1):
        self.counters[name] += n

    def evaluated(self, n=1):
        self.evaluations += n

    def mark_nontrivial(self, h):
        self.nontrivial.add(h)

    def shape(self, events):
        key = '|'.join(e.tag for e in events)
        self.shapes.add(hashlib.blake2b(key.encode(), digest_size=8).hexdigest())

    def sample(self, obj, keep=2):
        if len(self.samples) < keep:
            self.samples.append(obj)

    def violation(self, key, msg, case, witness=None):
        """
        key: mechanism key (structure of the witness, never case hashes / random values)
        case: everything needed to re-execute (blt text(s), options, ...)
        """
        self.nviol += 1
        self.counters['violation:' + key] += 1
        if sum(1 for v in self.violations if v['key'] == key) < 3:
            self.violations.append(dict(key=key, msg=msg, case=case, witness=witness,
                                        shard=self.shard, seed=self.seed))

    def result(self):
        return dict(counters=dict(self.counters), nontrivial=sorted(self.nontrivial), shapes=sorted(self.shapes),
                    violations=self.violations, nviol=self.nviol, samples=self.samples,
                    evaluations=self.evaluations, notes=self.notes, wall=time.monotonic() - self.t0)


def tier_budget(tier, mod):
    if tier == 'quick':
        return float(os.environ.get('VERIF_QUICK_S', getattr(mod, 'QUICK_S', 30)))
    return float(os.environ.get('VERIF_THOROUGH_S', getattr(mod, 'THOROUGH_S', 420)))


def shard_main(prop, tier, seed, shard, nshards, outfile):
    mod = load_monitor(prop)
    ctx = Ctx(prop, tier, seed, shard, nshards, tier_budget(tier, mod))
    cov = None
    if os.environ.get('VERIF_COV', '1') != '0' and getattr(mod, 'LINE_COVERAGE', True):
        from . import coverage
        cov = coverage.start()
    try:
        mod.shard(ctx)
        res = ctx.result()
        res['ok'] = True
    except BaseException:      # pylint: disable=broad-except
        res = ctx.result()
        res['ok'] = False
        res['crash'] = traceback.format_exc()
    if cov is not None:
        from . import coverage
        res['coverage'] = coverage.stop(cov)
    with open(outfile, 'w') as f:
        json.dump(res, f, default=str)


def load_known():
    with open(KNOWN_FILE) as f:
        k = json.load(f)
    return k


def jsonable(x):
    from fractions import Fraction
    if isinstance(x, dict):
        return {str(k): jsonable(v) for k, v in x.items()}
    if isinstance(x, (list, tuple, set, frozenset)):
        return [jsonable(v) for v in x]
    if isinstance(x, Fraction):
        return str(x)
    if isinstance(x, (str, int, float, bool)) or x is None:
        return x
    return repr(x)


def run_check(prop, tier, seed):
    mod = load_monitor(prop)
    t0 = time.monotonic()
    nshards = int(os.environ.get('VERIF_SHARDS', getattr(mod, 'SHARDS', 16)))
    budget = tier_budget(tier, mod)
    watchdog = budget * float(getattr(mod, 'WATCHDOG_FACTOR', 6)) + 240
    tmp = tempfile.mkdtemp(prefix='shards_%s_' % prop, dir=os.path.join(ROOT, 'out'))
    env = dict(os.environ)
    env['PYTHONHASHSEED'] = '0'
    env['PYTHONDONTWRITEBYTECODE'] = '1'
    procs = []
    for s in range(nshards):
        out = os.path.join(tmp, 'shard%d.json' % s)
        log = open(os.path.join(tmp, 'shard%d.log' % s), 'w')
        p = subprocess.Popen([sys.executable, os.path.join(ROOT, 'run.py'), '_shard', prop, tier, str(seed),
                              str(s), str(nshards), out], stdout=log, stderr=subprocess.STDOUT, env=env, cwd=ROOT)
        procs.append((s, p, out, log))
    results, lost = [], []
    for s, p, out, log in procs:
        remaining = max(1.0, watchdog - (time.monotonic() - t0))
        try:
            p.wait(timeout=remaining)
        except subprocess.TimeoutExpired:
            p.kill()
            p.wait()
            lost.append((s, 'wall-clock watchdog (%.0fs) fired' % watchdog))
            log.close()
            continue
        log.close()
        if not os.path.exists(out):
            tail = open(os.path.join(tmp, 'shard%d.log' % s)).read()[-2000:]
            lost.append((s, 'no result (exit %s): %s' % (p.returncode, tail)))
            continue
        with open(out) as f:
            r = json.load(f)
        if not r.get('ok'):
            lost.append((s, 'monitor crashed: ' + r.get('crash', '')[-3000:]))
        results.append(r)

    # ---- aggregate ----------------------------------------------------------------------
    counters = collections.Counter()
    nontrivial, shapes = set(), set()
    violations, samples, notes = [], [], []
    evaluations = 0
    cov = {}
    for r in results:
        counters.update(r['counters'])
        nontrivial.update(r['nontrivial'])
        shapes.update(r['shapes'])
        violations.extend(r['violations'])
        evaluations += r['evaluations']
        notes.extend(r.get('notes', []))
        for smp in r['samples']:
            if len(samples) < 5:
                samples.append(smp)
        for fn, lines in (r.get('coverage') or {}).items():
            cov.setdefault(fn, set()).update(lines)

    known = load_known()
    open_keys = {(k['property'], k['key']): k for k in known.get('open', [])}
    by_key = collections.OrderedDict()
    for v in violations:
        by_key.setdefault(v['key'], []).append(v)
    unknown_keys = [k for k in by_key if (prop, k) not in open_keys]
    known_keys = [k for k in by_key if (prop, k) in open_keys]

    # ---- deciding counters --------------------------------------------------------------
    inconclusive = []
    for name, minimum in getattr(mod, 'MIN_COUNTERS', {}).items():
        if counters.get(name, 0) < minimum:
            inconclusive.append('deciding counter %s=%d < %d' % (name, counters.get(name, 0), minimum))
    seen_why = set()
    for s, why in lost:
        short = why.strip()[-700:]
        if short in seen_why:
            inconclusive.append('shard %d lost: (same as above)' % s)
        else:
            seen_why.add(short)
            inconclusive.append('shard %d lost: %s' % (s, short))
    if evaluations == 0:
        inconclusive.append('no evaluations')

    # ---- replay files -------------------------------------------------------------------
    replay_dir = os.path.join(ROOT, 'out', 'replays', prop)
    os.makedirs(replay_dir, exist_ok=True)
    lines = []
    for k in known_keys:
        n = counters.get('violation:' + k, len(by_key[k]))
        lines.append('KNOWN-FINDING: property=%s %s: %s (%d cases this run)' % (prop, k, open_keys[(prop, k)]['what'], n))
    viol_lines = []
    for k in unknown_keys:
        v = by_key[k][0]
        safe = ''.join(ch if ch.isalnum() or ch in '-_' else '_' for ch in k)[:80]
        path = os.path.join(replay_dir, '%s-seed%d.json' % (safe, seed))
        with open(path, 'w') as f:
            json.dump(jsonable(dict(property=prop, key=k, msg=v['msg'], case=v['case'], witness=v['witness'],
                                    seed=v['seed'], shard=v['shard'], tier=tier)), f, indent=1)
        viol_lines.append('VIOLATION property=%s replay=%s' % (prop, path))
        viol_lines.append('  [%s] %s (%d cases)' % (k, v['msg'][:400], counters.get('violation:' + k, 1)))

    # ---- evidence -----------------------------------------------------------------------
    wall = time.monotonic() - t0
    coverage = dict(
        evaluations=int(evaluations),
        distinct_nontrivial=len(nontrivial),
        rule=getattr(mod, 'RULE_TEXT', ''),
        samples=jsonable(samples) or [],
        counters={k: v for k, v in sorted(counters.items())},
        distinct_history_shapes=len(shapes),
        shards=dict(run=len(results), lost=len(lost)),
        inconclusive=inconclusive,
        known_findings_seen={k: counters.get('violation:' + k, 0) for k in known_keys},
        exhaustive=bool(getattr(mod, 'EXHAUSTIVE', False)),
    )
    if notes:
        coverage['notes'] = notes[:20]
    if cov:
        from . import coverage as covmod
        coverage['line_coverage'] = covmod.summarise(cov, getattr(mod, 'ANCHOR_FILES', None))
    ev = dict(property_id=prop, tier=tier, seed=int(seed), level=getattr(mod, 'LEVEL', 'exploration'),
              coverage=coverage, assumptions=list(getattr(mod, 'ASSUMPTIONS', [])), wall_s=round(wall, 2),
              violations=sum(counters.get('violation:' + k, 0) for k in unknown_keys))
    # evidence/ only ever describes runs against /repo itself; runs against a scratch copy (selftest, seeded changes) go elsewhere
    target = os.path.realpath(os.environ.get('VERIF_REPO', '/repo'))
    evdir = os.path.join(ROOT, 'evidence') if target == os.path.realpath('/repo') else os.path.join(ROOT, 'out', 'evidence_scratch')
    ev['coverage']['repo'] = target
    os.makedirs(evdir, exist_ok=True)
    with open(os.path.join(evdir, prop + '.json'), 'w') as f:
        json.dump(ev, f, indent=1, sort_keys=True)
        f.write('\n')
    shutil.rmtree(tmp, ignore_errors=True)

    # ---- verdict ------------------------------------------------------------------------
    for ln in lines:
        print(ln)
    summary = '%s %s seed=%s: %d evaluations, %d distinct non-trivial, %d shapes, %.1fs' % (
        prop, tier, seed, evaluations, len(nontrivial), len(shapes), wall)
    if viol_lines:
        for ln in viol_lines:
            print(ln)
        print(summary + ' -> VIOLATED')
        return 1
    if inconclusive:
        print('INCONCLUSIVE property=%s reason=%s' % (prop, '; '.join(inconclusive)[:3000]))
        print(summary + ' -> INCONCLUSIVE')
        return 2
    print(summary + ' -> held on everything explored')
    return 0


def replay(path):
    with open(path) as f:
        rp = json.load(f)
    mod = load_monitor(rp['property'])
    vs = mod.replay(rp['case'])
    open_keys = {(k['property'], k['key']) for k in load_known().get('open', [])}
    rc = 0
    for key, msg in (vs or []):
        if (rp['property'], key) in open_keys:
            print('KNOWN-FINDING: property=%s %s: %s' % (rp['property'], key, msg))
        else:
            print('VIOLATION property=%s replay=%s' % (rp['property'], path))
            print('  [%s] %s' % (key, msg))
            rc = 1
    if vs:
        return rc
    print('replay of %s: no violation on this tree' % path)
    return 0
