"""
Observation layer: import droop from the working tree, trace ElectionRecord.action,
run counts under a CPU budget.  Nothing here edits droop; the hook is a rebinding of
droop.record.ElectionRecord.action done from outside (DESIGN 2.1).
"""
import os, sys, io, signal, contextlib
from fractions import Fraction

sys.dont_write_bytecode = True
REPO = os.environ.get('VERIF_REPO', '/repo')
if REPO not in sys.path:
    sys.path.insert(0, REPO)

import droop                                    # noqa: E402
import droop.record as _record                  # noqa: E402
from droop.election import Election             # noqa: E402
from droop.profile import ElectionProfile, ElectionProfileError   # noqa: E402
from droop.common import UsageError, ElectionError                # noqa: E402
from droop.values import ArithmeticValuesError                    # noqa: E402
from droop.values.fixed import Fixed            # noqa: E402
from droop.values.guarded import Guarded        # noqa: E402
from droop.values.rational import Rational      # noqa: E402

assert os.path.realpath(droop.__file__).startswith(os.path.realpath(REPO) + os.sep), \
    'droop imported from %s, expected under %s' % (droop.__file__, REPO)

RULES = sorted(droop.electionRuleNames())
WIGM_FAMILY = ('wigm', 'wigm-prf', 'wigm-prf-batch', 'cfer', 'cfer-batch', 'scotland', 'mpls')
MEEK_FAMILY = ('meek', 'warren', 'meek-prf')
STATUTORY = ('wigm-prf', 'wigm-prf-batch', 'meek-prf', 'scotland', 'mpls', 'cfer', 'cfer-batch', 'qpq')


class BudgetExceeded(BaseException):
    "CPU budget for one execution exhausted (inconclusive / not explored, never a verdict by itself)"


def _on_alarm(signum, frame):
    raise BudgetExceeded()


signal.signal(signal.SIGVTALRM, _on_alarm)


@contextlib.contextmanager
def cpu_budget(seconds):
    "raise BudgetExceeded in the body after `seconds` of CPU time of this process"
    signal.setitimer(signal.ITIMER_VIRTUAL, seconds)
    try:
        yield
    finally:
        signal.setitimer(signal.ITIMER_VIRTUAL, 0)


def raw(v):
    "scaled integer of Fixed/Guarded, Fraction of Rational, None stays None"
    if v is None:
        return None
    if isinstance(v, Fraction):
        return Fraction(v)
    if isinstance(v, (Fixed, Guarded)):
        return v._value
    if isinstance(v, bool):
        return v
    if isinstance(v, int):
        return v
    raise TypeError('unexpected value type %r' % type(v))


class ArithCfg:
    "copy of the class-level arithmetic configuration taken right after Election() is built"
    def __init__(self, V):
        self.cls = V
        self.name = V.name                       # fixed / integer / guarded / rational
        self.exact = bool(V.exact)
        if V is Rational:
            self.kind = 'rational'
            self.precision = None
            self.guard = None
            self.display = V.dp
            self.scale = 1
            self.geps = 0
            self.ulp = Fraction(0)
            self.eps_raw = Fraction(0)
        elif V is Fixed:
            self.kind = 'fixed'
            self.precision = V.precision
            self.guard = 0
            self.display = V.display
            self.scale = 10 ** V.precision
            self.geps = 1
            self.ulp = Fraction(1, self.scale)
            self.eps_raw = 1
        else:
            self.kind = 'guarded'
            self.precision = V.precision
            self.guard = V.guard
            self.display = V.display
            self.scale = 10 ** (V.precision + V.guard)
            self.geps = max(1, (10 ** V.guard) // 2)
            self.ulp = Fraction(1, self.scale)
            self.eps_raw = 1 if V.guard == 0 else 0

    def frac(self, r):
        "exact value (in votes) of a raw number"
        if r is None:
            return None
        return Fraction(r) / self.scale if self.scale != 1 else Fraction(r)

    def cmp(self, a, b):
        "the arithmetic's own three-way comparison, re-implemented on raw values"
        if self.kind == 'guarded':
            if abs(a - b) < self.geps:
                return 0
        return (a > b) - (a < b)

    def of_int(self, n):
        return n * self.scale if self.scale != 1 else Fraction(n)

    def describe(self):
        if self.kind == 'rational':
            return 'rational'
        if self.kind == 'fixed':
            return 'fixed p%d' % self.precision
        return 'guarded p%d g%d' % (self.precision, self.guard)


class Cand:
    __slots__ = ('state', 'vote', 'pending', 'kf', 'quotient', 'undeclared')

    def __init__(self, c):
        self.state = c.state
        self.vote = raw(c.vote)
        self.pending = c.pending
        self.kf = raw(c.kf)
        self.quotient = raw(c.quotient)
        self.undeclared = c.isUndeclared

    def astuple(self):
        return (self.state, self.vote, self.pending, self.kf, self.quotient)

    def __repr__(self):
        return 'Cand%r' % (self.astuple(),)


class Event:
    """one recorded action + live snapshot (None for 'log' actions)"""
    __slots__ = ('idx', 'tag', 'msg', 'round', 'A', 'cands', 'ballots', 'exhausted', 'residual',
                 'surplus', 'quota', 'votes', 'va', 'tx', 'has_snap')

    def astuple(self):
        "value-only rendering used for prefix/equality comparisons"
        return (self.tag, self.msg, self.round,
                None if self.cands is None else tuple(sorted((k, v.astuple()) for k, v in self.cands.items())),
                self.exhausted, self.residual, self.surplus, self.quota, self.votes)


class Tracer:
    "wraps ElectionRecord.action; one Event per call, appended after the original returns"
    installed = None

    def __init__(self, snap_ballots=False):
        self.events = []
        self.calls = 0
        self.record = None
        self.snap_ballots = snap_ballots

    def install(self):
        assert Tracer.installed is None, 'nested tracer'
        orig = _record.ElectionRecord.action
        tr = self

        def action(self_, tag, msg):
            orig(self_, tag, msg)
            if tr.record is None:
                tr.record = self_
            elif self_ is not tr.record:
                return                  # another election's record (constructed alongside): not part of this history
            tr.calls += 1
            E = self_.E
            ev = Event()
            ev.idx = len(self_['actions']) - 1
            ev.tag = tag
            ev.msg = msg
            ev.round = E.round
            ev.A = self_['actions'][-1]
            ev.has_snap = tag != 'log'
            ev.cands = ev.ballots = ev.exhausted = ev.residual = ev.surplus = None
            ev.quota = ev.votes = ev.va = ev.tx = None
            if ev.has_snap:
                ev.cands = {c.cid: Cand(c) for c in E.C}
                if tr.snap_ballots:
                    ev.ballots = [(b.index, raw(b.weight), raw(b.residual)) for b in E.ballots]
                ev.exhausted = raw(getattr(E, 'exhausted', None))
                ev.residual = raw(E.residual)
                ev.surplus = raw(E.surplus)
                ev.quota = raw(E.quota)
                ev.votes = raw(E.votes)
                ev.va = raw(getattr(E, 'va', None))
                ev.tx = raw(getattr(E, 'tx', None))
            tr.events.append(ev)

        self._orig = orig
        _record.ElectionRecord.action = action
        Tracer.installed = self

    def remove(self):
        _record.ElectionRecord.action = self._orig
        Tracer.installed = None


class Run:
    "result of one traced execution"
    def __init__(self):
        self.blt = None
        self.options = None
        self.profile = None
        self.E = None
        self.cfg = None
        self.events = []
        self.error = None          # exception instance raised by droop (not BudgetExceeded)
        self.phase = None          # 'profile' | 'construct' | 'count' | 'render' | 'done'
        self.timed_out = False
        self.hook_calls = 0
        self.report = self.dump = self.json = None
        self.mults = None          # raw multipliers of E.ballots
        self.other = None
        self.rankings = None

    @property
    def complete(self):
        "the count ran to its end (no exception, no budget overrun)"
        return self.error is None and not self.timed_out and self.phase == 'done'

    @property
    def rule(self):
        return self.E.rule.name if self.E is not None else (self.options or {}).get('rule')

    @property
    def snaps(self):
        return [e for e in self.events if e.has_snap]


def do_count(blt=None, options=None, profile=None, budget=2.0, snap_ballots=False, render=False, construct_also=None, options_object=None,
             election_args=None):
    """
    parse (unless a profile is given), construct, count -- traced and budgeted.
    Exceptions raised by droop are captured in run.error with run.phase saying where.
    """
    run = Run()
    run.blt = blt
    run.options = dict(options or {})
    tr = Tracer(snap_ballots=snap_ballots)
    out = io.StringIO()
    try:
        with contextlib.redirect_stdout(out), cpu_budget(budget):
            run.phase = 'profile'
            if profile is None:
                profile = ElectionProfile(data=blt)
            run.profile = profile
            run.phase = 'construct'
            tr.install()
            try:
                if election_args is not None:
                    # the caller's way of handing over the configuration: () = no options argument at all, (None,), (dict,), (Options,)
                    E = Election(profile, *election_args)
                else:
                    E = Election(profile, options_object if options_object is not None else dict(run.options))
                run.E = E
                run.cfg = ArithCfg(E.V)
                run.mults = [raw(b.multiplier) for b in E.ballots]
                run.rankings = [list(b.ranking) for b in E.ballots]
                if construct_also is not None:
                    # another election with the same rule and options is constructed (not counted) before this one is counted
                    run.other = Election(ElectionProfile(data=construct_also), dict(run.options))
                run.phase = 'count'
                E.count()
                if render:
                    run.phase = 'render'
                    run.report = E.report()
                    run.dump = E.dump()
                    run.json = E.json()
                run.phase = 'done'
            finally:
                tr.remove()
    except BudgetExceeded:
        run.timed_out = True
    except Exception as e:      # pylint: disable=broad-except
        run.error = e
    finally:
        if Tracer.installed is not None:
            tr.remove()
        signal.setitimer(signal.ITIMER_VIRTUAL, 0)
    run.events = tr.events
    run.hook_calls = tr.calls
    return run


def expected_domain_error(run):
    "errors that are the package's documented way of refusing an input or option"
    return isinstance(run.error, (ElectionProfileError, UsageError, ElectionError, ArithmeticValuesError))


def tie_names(msg):
    "parse 'Break tie ...: [a, b] -> c' into (frozenset(names), chosen)"
    lb = msg.index('[')
    rb = msg.rindex('] -> ')
    return frozenset(msg[lb + 1:rb].split(', ')), msg[rb + 5:]


def action_name(msg):
    "candidate name in an elect/defeat/unpend message: text after the first ': '"
    return msg.split(': ', 1)[1]
