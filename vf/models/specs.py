"""
Executable specifications of the six published procedures (DESIGN C03 / Appendix A), written from the rule
text reproduced in the droop rule modules (plus Woodall's restart for QPQ), in scaled-integer decimal
arithmetic of their own.  They never import droop.values.

Each model produces the stage-by-stage history the procedure prescribes:
    steps = [(round, kind, who, tallies, nt)]
      kind 'begin' | 'count' | 'elect' (frozenset) | 'defeat' (frozenset) | 'surplus' (cid) | 'xfer' (frozenset) | 'tie' ((tied, choice))
Ties are the only place where the model consults the history under test: wherever the text says "by lot" /
"predetermined order" the model asks `ties.resolve(tied, permitted)` for the choice the code recorded at that
point and checks that it is one the text permits; a missing or different tie record is a Mismatch.

Deviation switches (default off = the strict text) are documented next to their use.
"""


class Mismatch(Exception):
    "the history under test cannot be the one this specification (with these switches) prescribes"


class Ties:
    "the tie-break choices recorded by the code, consumed in order"
    def __init__(self, recorded):
        self.recorded = list(recorded)      # [(frozenset(tied), choice)]
        self.i = 0

    def resolve(self, tied, permitted, what):
        tied = frozenset(tied)
        if self.i >= len(self.recorded):
            raise Mismatch('the text needs a tie-break among %s (%s) but the record logs none' % (sorted(tied), what))
        rt, rc = self.recorded[self.i]
        self.i += 1
        if rt != tied:
            raise Mismatch('tie %d: record names %s, the text ties %s (%s)' % (self.i, sorted(rt), sorted(tied), what))
        if rc not in permitted:
            raise Mismatch('tie %d among %s resolved to %s; the text permits %s (%s)' % (self.i, sorted(tied), rc, sorted(permitted), what))
        return rc

    def exhausted(self):
        return self.i == len(self.recorded)


def _ballots(lines, withdrawn, S):
    bs = [dict(m=m, r=[c for c in r if c not in withdrawn], i=0, w=S) for m, r in lines]
    return [b for b in bs if b['r']]


class _Gregory:
    "shared state of the Gregory-family models"
    def __init__(self, nc, seats, lines, tie, withdrawn, S):
        self.S = S
        self.seats = seats
        self.tie = tie
        self.cands = [c for c in range(1, nc + 1) if c not in withdrawn]
        self.state = {c: 'H' for c in self.cands}       # H hopeful, P elected with surplus pending, E elected, D defeated
        self.ballots = _ballots(lines, set(withdrawn), S)
        self.nb = sum(b['m'] for b in self.ballots)
        self.vote = {c: 0 for c in self.cands}
        for b in self.ballots:
            self.vote[b['r'][0]] += S * b['m']
        self.nt = 0
        self.rnd = 0
        self.hist = []

    def H(self):
        return [c for c in self.cands if self.state[c] == 'H']

    def P(self):
        return [c for c in self.cands if self.state[c] == 'P']

    def EL(self):
        return [c for c in self.cands if self.state[c] in 'PE']

    def snap(self, kind, who):
        self.hist.append((self.rnd, kind, who, dict(self.vote), self.nt))

    def transfer(self, b):
        while b['i'] < len(b['r']) and self.state[b['r'][b['i']]] != 'H':
            b['i'] += 1
        if b['i'] >= len(b['r']):
            self.nt += b['w'] * b['m']
        else:
            self.vote[b['r'][b['i']]] += b['w'] * b['m']

    def on(self, c):
        return [b for b in self.ballots if b['i'] < len(b['r']) and b['r'][b['i']] == c]

    def lot(self, tied, ties, what):
        if len(tied) == 1:
            return tied[0]
        first = min(tied, key=lambda c: self.tie[c])
        c = ties.resolve(tied, {first}, what)
        self.snap('tie', (frozenset(tied), c))
        return c


# ==========================================================================================
# PRF reference WIGM  (## text in droop/rules/wigm_prf.py)
# ==========================================================================================

def wigm_prf(nc, seats, lines, tie, withdrawn, ties, batch=False, sw=()):
    """
    switch 'wigmprf-d3': "Test count complete (D.3)" is evaluated only at the top of each round (and, as
    'hopeful <= seats left', right after a B.2 defeat) instead of after B.1 and within B.2 / B.4.
    """
    lax = 'wigmprf-d3' in sw
    S = 10 ** 4
    g = _Gregory(nc, seats, lines, tie, withdrawn, S)
    quota = (g.nb * S) // (seats + 1) + 1                 # A.1: n/(s+1) truncated (D.4) plus 0.0001

    def complete():                                        # D.3
        return len(g.EL()) == seats or len(g.EL()) + len(g.H()) <= seats

    g.snap('begin', None)
    done = complete()                                      # A.3
    while not done:
        g.rnd += 1
        newly = [c for c in g.H() if g.vote[c] >= quota]   # B.1
        for c in newly:
            g.state[c] = 'P'
        if newly:
            g.snap('elect', frozenset(newly))
        if complete() and not lax:
            break
        if batch:                                          # B.2
            surplus = sum(g.vote[c] - quota for c in g.P())
            hs = sorted(g.H(), key=lambda c: g.vote[c])
            best = []
            for k in range(1, len(hs)):
                cand, rest = hs[:k], hs[k:]
                if len(rest) < seats - len(g.EL()):        # B.2.a
                    break
                if g.vote[cand[-1]] == g.vote[rest[0]]:    # B.2.b
                    continue
                if sum(g.vote[c] for c in cand) + surplus < g.vote[rest[0]]:   # B.2.c
                    best = cand
            if best:
                for c in best:
                    g.state[c] = 'D'
                g.snap('defeat', frozenset(best))
                # strict: D.3 in full; with the switch only its second half is tested here (the first was due after B.1)
                if (len(g.H()) <= seats - len(g.EL())) if lax else complete():
                    break
                for b in g.ballots:
                    if b['i'] < len(b['r']) and b['r'][b['i']] in best:
                        g.transfer(b)
                for c in best:
                    g.vote[c] = 0
                g.snap('xfer', frozenset(best))
                if lax and complete():
                    break
                continue
        if g.P():                                          # B.3
            hv = max(g.vote[c] for c in g.P())
            c = g.lot([c for c in g.P() if g.vote[c] == hv], ties, 'B.3 largest surplus')
            s = g.vote[c] - quota
            g.state[c] = 'E'
            v = g.vote[c]
            for b in g.on(c):
                b['w'] = ((b['w'] * s) // S) * S // v       # multiply, truncate; divide, truncate (D.4)
                g.transfer(b)
            g.vote[c] = quota
            g.snap('surplus', c)
            if lax and complete():
                break
            continue
        lv = min(g.vote[c] for c in g.H())                 # B.4
        c = g.lot([c for c in g.H() if g.vote[c] == lv], ties, 'B.4 lowest vote')
        g.state[c] = 'D'
        g.snap('defeat', frozenset([c]))
        if complete() and not lax:
            break
        for b in g.on(c):
            g.transfer(b)
        g.vote[c] = 0
        g.snap('xfer', frozenset([c]))
        if lax and complete():
            break
    for c in g.P():                                        # C
        g.state[c] = 'E'
    rem = g.H()
    if rem:
        if len(g.EL()) >= seats:
            for c in rem:
                g.state[c] = 'D'
            g.snap('defeat', frozenset(rem))
        else:
            for c in rem:
                g.state[c] = 'E'
            g.snap('elect', frozenset(rem))
    return quota, g.hist, [c for c in g.cands if g.state[c] == 'E']


# ==========================================================================================
# Scottish Local Government Elections Order 2007, rules 45-52  (## text in droop/rules/scotland.py)
# ==========================================================================================

def scotland(nc, seats, lines, tie, withdrawn, ties, sw=()):
    """
    switches
      'scot-final-transfer': the papers of the last excluded candidate are transferred although the last
                             vacancies can already be filled (52(2) says no further transfer shall be made)
      'scot-zero-surplus':   a candidate exactly on the quota gets a transfer stage of value 0 (48(1): only
                             where the votes *exceed* the quota)
    """
    S = 10 ** 5
    g = _Gregory(nc, seats, lines, tie, withdrawn, S)
    quota = (g.nb // (seats + 1) + 1) * S                  # 46
    past = []                                              # tallies at the end of each stage

    def elect():                                           # 47
        new = [c for c in g.H() if g.vote[c] >= quota]
        for c in new:
            g.state[c] = 'P'
        if new:
            g.snap('elect', frozenset(new))

    def complete():                                        # 52(1) (and nothing left to fill)
        return len(g.EL()) >= seats or len(g.H()) <= seats - len(g.EL())

    def breaktie(tied, lowest, what):                      # 49(2),(3) / 51(2)
        if len(tied) == 1:
            return tied[0]
        # the most recent differing stage decides who is still in contention; when several share the extreme there the statute
        # does not say whether older stages are consulted again among them or the lot decides at once: both are accepted,
        # and among candidates level at every stage the lot decides
        live = list(tied)
        first_shared = None
        for t in reversed(past):
            vals = [t[c] for c in live]
            if len(set(vals)) > 1:
                ext = min(vals) if lowest else max(vals)
                live = [c for c in live if t[c] == ext]
                if first_shared is None:
                    first_shared = list(live)
                if len(live) == 1:
                    break
        permitted = {min(live, key=lambda c: g.tie[c])}
        if first_shared is not None:
            permitted.add(min(first_shared, key=lambda c: g.tie[c]))
        c = ties.resolve(tied, permitted, what)
        g.snap('tie', (frozenset(tied), c))
        return c

    g.snap('begin', None)
    elect()
    past.append(dict(g.vote))
    while not complete():
        g.rnd += 1
        pend = [c for c in g.P() if (g.vote[c] > quota or 'scot-zero-surplus' in sw)]     # 48(1)
        if pend:
            hv = max(g.vote[c] for c in pend)                                             # 49(1)
            c = breaktie([c for c in pend if g.vote[c] == hv], False, '49 largest surplus')
            s = g.vote[c] - quota
            v = g.vote[c]
            g.state[c] = 'E'
            for b in g.on(c):
                b['w'] = (b['w'] * s) // v                 # 48(3): A/B to five decimal places, remainder ignored
                g.transfer(b)
            g.vote[c] = quota
            g.snap('surplus', c)
            elect()
            past.append(dict(g.vote))
            continue
        lv = min(g.vote[c] for c in g.H())                 # 50(1)
        c = breaktie([c for c in g.H() if g.vote[c] == lv], True, '51 lowest vote')
        g.state[c] = 'D'
        g.snap('defeat', frozenset([c]))
        if complete() and 'scot-final-transfer' not in sw:  # 52(2)
            break
        for b in g.on(c):                                  # 50(3),(4)
            g.transfer(b)
        g.vote[c] = 0
        g.snap('xfer', frozenset([c]))
        elect()
        past.append(dict(g.vote))
    for c in g.P():
        g.state[c] = 'E'
    rem = g.H()
    if rem:
        if len(rem) <= seats - len(g.EL()):                # 52(1)
            for c in rem:
                g.state[c] = 'E'
            g.snap('elect', frozenset(rem))
        else:
            for c in rem:
                g.state[c] = 'D'
            g.snap('defeat', frozenset(rem))
    return quota, g.hist, [c for c in g.cands if g.state[c] == 'E']


# ==========================================================================================
# Minneapolis 167.70  (## text in droop/rules/mpls.py)
# ==========================================================================================

def mpls(nc, seats, lines, tie, withdrawn, ties, undeclared=(), sw=()):
    """
    switches
      'mpls-clause-c-finish': certain-loser defeats (clause c) always transfer and return to clause a; the text
                              does not transfer when the defeat reduces the continuing candidates to the seats left
      'mpls-tv-order':        transfer value computed as trunc4(trunc4(value*surplus)/total) instead of the
                              ordinance's trunc4(trunc4(surplus/total) * value)
    Adopted readings (implementation notes 3 and 6 of the module): ">= seats" in clause a / f, a candidate at the
    threshold has a (zero) surplus in clause d, certain losers are capped so that the seats can still be filled.
    """
    S = 10 ** 4
    g = _Gregory(nc, seats, lines, tie, withdrawn, S)
    und = set(undeclared)
    thr = (g.nb // (seats + 1) + 1) * S
    g.rnd = 1

    def EL():
        return [c for c in g.cands if g.state[c] == 'E']

    def finished():
        return len(g.H()) <= seats - len(EL())

    while True:
        g.snap('count', None)                              # a. NEW ROUND
        W = [c for c in g.H() if c not in und and g.vote[c] >= thr]
        if len(EL()) + len(W) >= seats:
            for c in W:
                g.state[c] = 'E'
            if W:
                g.snap('elect', frozenset(W))
            break
        g.rnd += 1
        surplus = sum(max(0, g.vote[c] - thr) for c in g.cands if c not in und and g.state[c] != 'D')     # b.
        D = []                                             # c. DEFEAT CERTAIN LOSERS
        uv = 0
        if g.rnd == 2:
            D = [c for c in g.H() if c in und]
            uv = sum(b['w'] * b['m'] for b in g.ballots if b['i'] < len(b['r']) and b['r'][b['i']] in und)
        hs = sorted(g.H(), key=lambda c: g.vote[c])
        losers = []
        acc = 0
        cap = len(g.H()) - (seats - len(EL()))
        for k in range(len(hs) - 1):
            if k + 1 > cap:
                break
            acc += g.vote[hs[k]]
            if acc + surplus + uv < g.vote[hs[k + 1]]:
                losers = hs[:k + 1]
        D = list(dict.fromkeys(D + losers))
        if D:
            for c in D:
                g.state[c] = 'D'
            g.snap('defeat', frozenset(D))
            if finished() and 'mpls-clause-c-finish' not in sw:
                break
            for b in g.ballots:
                if b['i'] < len(b['r']) and b['r'][b['i']] in D:
                    g.transfer(b)
            for c in D:
                g.vote[c] = 0
            g.snap('xfer', frozenset(D))
            continue
        W = [c for c in g.H() if g.vote[c] >= thr]         # d. ELECT HIGHEST SURPLUS
        if W:
            hv = max(g.vote[c] for c in W)
            c = g.lot([x for x in W if g.vote[x] == hv], ties, 'd. largest surplus')
            g.state[c] = 'E'
            g.snap('elect', frozenset([c]))
            s = g.vote[c] - thr
            v = g.vote[c]
            for b in g.on(c):
                if 'mpls-tv-order' in sw:
                    b['w'] = ((b['w'] * s) // S) * S // v
                else:
                    b['w'] = (((s * S) // v) * b['w']) // S    # surplus fraction to 4 places, times current value, to 4 places
                g.transfer(b)
            g.vote[c] = thr
            g.snap('surplus', c)
            continue
        if len(g.H()) > seats - len(EL()):                 # e. DEFEAT LOWEST CANDIDATE
            lv = min(g.vote[c] for c in g.H())
            c = g.lot([x for x in g.H() if g.vote[x] == lv], ties, 'e. fewest votes')
            g.state[c] = 'D'
            g.snap('defeat', frozenset([c]))
            if not finished():
                for b in g.on(c):
                    g.transfer(b)
                g.vote[c] = 0
                g.snap('xfer', frozenset([c]))
        if finished():                                     # f. FINISH
            break
    if finished():
        h = g.H()
        for c in h:
            g.state[c] = 'E'
        if h:
            g.snap('elect', frozenset(h))
    h = g.H()
    if h:
        for c in h:
            g.state[c] = 'D'
        g.snap('defeat', frozenset(h))
    return thr, g.hist, [c for c in g.cands if g.state[c] == 'E']


# ==========================================================================================
# CfER draft section 10059  (## text in droop/rules/cfer.py)
# ==========================================================================================

def cfer(nc, seats, lines, tie, withdrawn, ties, batch=False, sw=()):
    """
    switches
      'cfer-threshold':      threshold = ballots/(seats+1) truncated to 5 places + 0.00001 instead of the text's
                             floor(ballots/(seats+1)) + 1
      'cfer-one-truncation': transfer value truncated after the multiplication and again after the division
                             instead of once ((g)(2): "... truncated to five decimal places")
    """
    S = 10 ** 5
    g = _Gregory(nc, seats, lines, tie, withdrawn, S)
    if 'cfer-threshold' in sw:
        quota = (g.nb * S) // (seats + 1) + 1
    else:
        quota = (g.nb // (seats + 1) + 1) * S              # (a)(2)
    g.snap('begin', None)
    while True:
        g.rnd += 1
        if g.rnd == 1 and len(g.H()) <= seats:             # (c)
            h = g.H()
            for c in h:
                g.state[c] = 'E'
            if h:
                g.snap('elect', frozenset(h))
            break
        new = [c for c in g.H() if g.vote[c] >= quota]     # (d)
        for c in new:
            g.state[c] = 'P' if g.vote[c] > quota else 'E'
        if new:
            g.snap('elect', frozenset(new))
        if len(g.EL()) >= seats:                           # (e)
            for c in g.P():
                g.state[c] = 'E'
            h = g.H()
            for c in h:
                g.state[c] = 'D'
            if h:
                g.snap('defeat', frozenset(h))
            break
        defeats = []
        if batch:                                          # (f) / (k)
            surplus = sum(g.vote[c] - quota for c in g.P())
            hs = sorted(g.H(), key=lambda c: g.vote[c])
            nE = len(g.EL())
            for t in range(1, len(hs)):
                ds, rest = hs[:t], hs[t:]
                if g.vote[ds[-1]] == g.vote[rest[0]]:      # a defeat set holds every candidate with fewer or equal votes
                    continue
                if len(rest) + nE < seats:                 # (1)
                    break
                vs = sum(g.vote[c] for c in ds)
                if not vs + surplus < g.vote[rest[0]]:     # (2)
                    continue
                top = g.vote[hs[-1]]
                if (nE == seats - 1) or (len(rest) + nE == seats) or (vs + surplus < quota - top) or \
                        (surplus == 0 and vs - g.vote[ds[-1]] < quota - top):      # (3)(A)-(D)
                    defeats = ds
            if defeats:
                for c in defeats:
                    g.state[c] = 'D'
                g.snap('defeat', frozenset(defeats))
        if not defeats:
            if g.P():                                      # (g)
                for c in sorted(g.P()):
                    s = g.vote[c] - quota
                    v = g.vote[c]
                    g.state[c] = 'E'
                    for b in g.on(c):
                        if 'cfer-one-truncation' in sw:
                            b['w'] = ((b['w'] * s) // S) * S // v
                        else:
                            b['w'] = (b['w'] * s) // v
                        g.transfer(b)
                    g.vote[c] = quota
                    g.snap('surplus', c)
            else:                                          # (h)
                lv = min(g.vote[c] for c in g.H())
                c = g.lot([x for x in g.H() if g.vote[x] == lv], ties, '(h) fewest votes')
                g.state[c] = 'D'
                defeats = [c]
                g.snap('defeat', frozenset([c]))
        if defeats:                                        # (i)
            if len(g.H()) + len(g.EL()) <= seats:
                for c in g.P():
                    g.state[c] = 'E'
                h = g.H()
                for c in h:
                    g.state[c] = 'E'
                if h:
                    g.snap('elect', frozenset(h))
                break
            for b in g.ballots:
                if b['i'] < len(b['r']) and b['r'][b['i']] in defeats:
                    g.transfer(b)
            for c in defeats:
                g.vote[c] = 0
            g.snap('xfer', frozenset(defeats))
    return quota, g.hist, [c for c in g.cands if g.state[c] == 'E']


# ==========================================================================================
# PRF reference Meek  (## text in droop/rules/meek_prf.py)
# ==========================================================================================

def _cdiv(a, b):
    return -((-a) // b)


def meek_prf(nc, seats, lines, tie, withdrawn, ties, sw=()):
    """
    9 decimal places, omega = 10^-6.  Steps carry a 5th field: (tallies, quota, keep factors) are comparable
    ("fresh") only at begin, at an in-iteration election and at the pre-exclusion point; 'remaining' steps are not.
    """
    S = 10 ** 9
    omega = S // 10 ** 6
    cands = [c for c in range(1, nc + 1) if c not in withdrawn]
    state = {c: 'H' for c in cands}
    kf = {c: S for c in cands}                             # A
    ballots = [(m, [c for c in r if c not in withdrawn]) for m, r in lines]
    ballots = [b for b in ballots if b[1]]
    nb = sum(m for m, _ in ballots)
    vote = {c: 0 for c in cands}
    for m, r in ballots:
        vote[r[0]] += m * S
    quota = (nb * S) // (seats + 1) + 1
    hist = []
    rnd = 0

    def H():
        return [c for c in cands if state[c] == 'H']

    def EL():
        return [c for c in cands if state[c] == 'E']

    def snap(kind, who, fresh=True):
        hist.append((rnd, kind, who, dict(vote), None, dict(quota=quota, kf=dict(kf), fresh=fresh)))

    snap('begin', None)
    surplus = 0
    while len(H()) > seats - len(EL()) > 0:                # B.1
        rnd += 1
        last = None
        exclude = False
        while True:                                        # B.2
            for c in cands:
                if state[c] != 'D':
                    vote[c] = 0
            for m, r in ballots:                           # B.2.a
                w = S
                for c in r:
                    if kf[c]:
                        kw = _cdiv(w * kf[c], S)           # w * kf to 9 places, rounded up
                        vote[c] += kw * m
                        w -= kw
                        if w <= 0:
                            break
            tot = sum(vote[c] for c in cands if state[c] != 'D')
            quota = tot // (seats + 1) + 1                 # B.2.b
            new = [c for c in H() if vote[c] >= quota]     # B.2.c
            for c in new:
                state[c] = 'E'
            if new:
                snap('elect', frozenset(new))
            surplus = max(0, sum(vote[c] - quota for c in EL()))       # B.2.d
            if new:                                        # B.2.e
                break
            if surplus < omega or (last is not None and surplus >= last):
                exclude = True
                break
            last = surplus
            for c in EL():                                 # B.2.f
                kf[c] = _cdiv(_cdiv(kf[c] * quota, S) * S, vote[c])
        if exclude and H():                                # B.3
            lv = min(vote[c] for c in H())
            tied = [c for c in H() if vote[c] <= lv + surplus]
            if len(tied) == 1:
                c = tied[0]
            else:
                first = min(tied, key=lambda x: tie[x])
                c = ties.resolve(tied, {first}, 'B.3 / T lowest vote within the surplus')
                snap('tie', (frozenset(tied), c))
            state[c] = 'D'
            snap('defeat', frozenset([c]))
            kf[c] = 0
            vote[c] = 0
    h = H()                                                # C
    if h:
        if len(EL()) < seats:
            for c in h:
                state[c] = 'E'
            snap('elect', frozenset(h), fresh=False)
        else:
            for c in h:
                state[c] = 'D'
            snap('defeat', frozenset(h), fresh=False)
    return quota, hist, [c for c in cands if state[c] == 'E']


# ==========================================================================================
# QPQ (Woodall, Voting matters 17) with restarts; guarded 9+9 arithmetic
# ==========================================================================================

QS = 10 ** 18
QGEPS = 10 ** 9 // 2


def _gcmp(a, b):
    if abs(a - b) < QGEPS:
        return 0
    return 1 if a > b else -1


def qpq(nc, seats, lines, tie, withdrawn, ties, sw=()):
    "tallies of a step are the quotients; the 5th field carries the quota"
    S = QS
    cands = [c for c in range(1, nc + 1) if c not in withdrawn]
    state = {c: 'H' for c in cands}
    ballots = [dict(m=m, r=[c for c in r if c not in withdrawn], i=0, w=0) for m, r in lines]
    ballots = [b for b in ballots if b['r']]
    quot = {c: 0 for c in cands}
    hist = []
    rnd = 0
    quota = (sum(b['m'] for b in ballots) * S * S) // ((1 + seats) * S)        # 2.4 with tx = 0

    def H():
        return [c for c in cands if state[c] == 'H']

    def EL():
        return [c for c in cands if state[c] == 'E']

    def snap(kind, who):
        hist.append((rnd, kind, who, dict(quot), None, dict(quota=quota, fresh=True)))

    def adv(b):
        while b['i'] < len(b['r']) and state[b['r'][b['i']]] != 'H':
            b['i'] += 1

    def lot(tied, what):
        if len(tied) == 1:
            return tied[0]
        first = min(tied, key=lambda x: tie[x])
        c = ties.resolve(tied, {first}, what)
        snap('tie', (frozenset(tied), c))
        return c

    def complete():
        return seats - len(EL()) <= 0 or len(H()) <= seats - len(EL())

    snap('begin', None)
    restart = True
    while not complete():
        rnd += 1
        if restart:                                        # Woodall: after an exclusion the count restarts
            restart = False
            for c in EL():
                state[c] = 'H'
            for b in ballots:
                b['i'] = 0
                b['w'] = 0
                adv(b)
        tx = 0
        va = 0
        vc = {c: 0 for c in H()}
        tc = {c: 0 for c in H()}
        for b in ballots:                                  # 2.3, 2.4
            if b['i'] >= len(b['r']):
                tx += b['w'] * b['m']
            else:
                va += b['m'] * S
                c = b['r'][b['i']]
                tc[c] += b['w'] * b['m']
                vc[c] += b['m'] * S
        for c in H():
            quot[c] = (vc[c] * S) // (S + tc[c])
        quota = (va * S) // ((1 + seats) * S - tx)
        hq = max(quot[c] for c in H())
        if _gcmp(hq, quota) > 0:                           # 2.5a
            c = lot([x for x in H() if _gcmp(quot[x], hq) == 0], '2.5a highest quotient')
            state[c] = 'E'
            snap('elect', frozenset([c]))
            nw = (S * S) // quot[c]
            for b in ballots:
                if b['i'] < len(b['r']) and b['r'][b['i']] == c:
                    b['w'] = nw
                    adv(b)
            snap('surplus', c)
        else:                                              # 2.5b
            lq = min(quot[c] for c in H())
            c = lot([x for x in H() if _gcmp(quot[x], lq) == 0], '2.5b smallest quotient')
            state[c] = 'D'
            snap('defeat', frozenset([c]))
            for b in ballots:
                if b['i'] < len(b['r']) and b['r'][b['i']] == c:
                    adv(b)
            snap('xfer', frozenset([c]))
            restart = True
    h = H()
    if h and len(h) <= seats - len(EL()):
        for c in h:
            state[c] = 'E'
        snap('elect', frozenset(h))
    h = H()
    if h:
        for c in h:
            state[c] = 'D'
        snap('defeat', frozenset(h))
    return quota, hist, [c for c in cands if state[c] == 'E']
