"""
Postcondition contracts on the real methods of droop's value classes (DESIGN C12-C14).

The wrappers are what icontract.ensure + snapshot would expand to: capture operand state, call the
real method, compare the result with an exact Fraction / integer shadow, count the evaluation.
They are installed from outside with setattr on the class (each alias separately: __truediv__,
__div__ and __floordiv__ are three attributes bound to one function at class creation) and
removed afterwards.  A contract never raises into the code under test: it records.
"""
import math, operator
from fractions import Fraction
from .harness import Fixed, Guarded, Rational


class Recorder:
    def __init__(self):
        self.evals = {}          # contract name -> evaluations
        self.inexact = 0         # evaluations where rounding actually happened
        self.fails = []          # (key, message)
        self.nfails = 0
        self.perkey = {}
        self.distinct = set()

    def ok(self, name):
        self.evals[name] = self.evals.get(name, 0) + 1

    def fail(self, key, msg):
        self.nfails += 1
        self.perkey[key] = self.perkey.get(key, 0) + 1
        if self.perkey[key] <= 3 and len(self.perkey) <= 300:     # a few witnesses per mechanism; no key is ever crowded out
            self.fails.append((key, msg))

    def total(self):
        return sum(self.evals.values())

    def mark(self, *key):
        "one evaluation where rounding / a boundary actually mattered; distinct cases are counted (capped)"
        self.inexact += 1
        if len(self.distinct) < 60000:
            self.distinct.add(hash(key))


def _floor(fr):
    return math.floor(fr)


# ------------------------------------------------------------------------------------------
# Fixed
# ------------------------------------------------------------------------------------------

def fx_raw(x, S):
    "raw integer a Fixed operation sees for operand x (ints are scaled)"
    if isinstance(x, Fixed):
        return x._value
    if isinstance(x, bool):
        return None
    if isinstance(x, int):
        return x * S
    return None


def install_fixed(rec):
    saved = {}
    cls = Fixed

    def wrap(name, post, is_classmethod=False):
        orig = cls.__dict__[name]
        saved[name] = orig
        f = orig.__func__ if is_classmethod else orig

        if is_classmethod:
            def w(c, *a, **k):
                S = 10 ** cls.precision
                before = [x._value if isinstance(x, Fixed) else None for x in a]
                res = f(c, *a, **k)
                try:
                    post(S, a, k, res)
                    for x, b in zip(a, before):
                        if b is not None and x._value != b:
                            rec.fail('fixed:%s:operand-mutated' % name, '%s mutated an operand' % name)
                except Exception as e:      # pylint: disable=broad-except
                    rec.fail('fixed:%s:contract-error' % name, '%s: %r' % (name, e))
                return res
            setattr(cls, name, classmethod(w))
        else:
            def w(self, *a, **k):
                S = 10 ** cls.precision
                sv = self._value
                before = [x._value if isinstance(x, Fixed) else None for x in a]
                res = f(self, *a, **k)
                try:
                    post(S, (self,) + a, k, res, sv)
                    if self._value != sv:
                        rec.fail('fixed:%s:operand-mutated' % name, '%s mutated self' % name)
                    for x, b in zip(a, before):
                        if b is not None and x._value != b:
                            rec.fail('fixed:%s:operand-mutated' % name, '%s mutated an operand' % name)
                except Exception as e:      # pylint: disable=broad-except
                    rec.fail('fixed:%s:contract-error' % name, '%s: %r' % (name, e))
                return res
            setattr(cls, name, w)

    def is_fixed(res, name):
        if type(res) is not Fixed:
            rec.fail('fixed:%s:result-type' % name, '%s returned %r' % (name, type(res)))
            return False
        return True

    def exact_binop(name, pyop):
        def post(S, a, k, res, sv):
            b = fx_raw(a[1], S)
            if b is None:
                return
            if is_fixed(res, name):
                want = pyop(sv, b)
                rec.ok('fixed:' + name)
                if res._value != want:
                    rec.fail('fixed:%s:not-exact' % name, '%s: raw %s op %s -> %s, exact %s (p=%d)' % (name, sv, b, res._value, want, cls.precision))
        return post

    def post_mul(S, a, k, res, sv):
        o = a[1]
        if isinstance(o, bool) or not isinstance(o, (int, Fixed)):
            return
        if not is_fixed(res, '__mul__'):
            return
        rec.ok('fixed:__mul__')
        if isinstance(o, int):
            want = sv * o
            if res._value != want:
                rec.fail('fixed:__mul__:int-not-exact', 'raw %s * int %s -> %s, exact %s' % (sv, o, res._value, want))
        else:
            ex = Fraction(sv * o._value, S)
            want = _floor(ex)
            if ex != want:
                rec.mark('mul', S, sv, o._value)
            if res._value != want:
                rec.fail('fixed:__mul__:not-floor', 'raw %s * %s -> %s, floor of exact is %s (p=%d)' % (sv, o._value, res._value, want, cls.precision))

    def post_div_factory(name):
        def post(S, a, k, res, sv):
            o = a[1]
            if isinstance(o, bool) or not isinstance(o, (int, Fixed)):
                return
            if not is_fixed(res, name):
                return
            rec.ok('fixed:' + name)
            if isinstance(o, int):
                ex = Fraction(sv, o)
            else:
                ex = Fraction(sv * S, o._value)
            want = _floor(ex)
            if ex != want:
                rec.mark(name, S, sv, o if isinstance(o, int) else o._value)
            if res._value != want:
                rec.fail('fixed:%s:not-floor' % name, 'raw %s / %s -> %s, floor of exact is %s (p=%d)'
                         % (sv, o if isinstance(o, int) else o._value, res._value, want, cls.precision))
        return post

    def post_unary(name, pyop):
        def post(S, a, k, res, sv):
            if is_fixed(res, name):
                rec.ok('fixed:' + name)
                if res._value != pyop(sv):
                    rec.fail('fixed:%s:wrong' % name, '%s(raw %s) -> %s' % (name, sv, res._value))
        return post

    def post_cmp(name, pyop):
        def post(S, a, k, res, sv):
            o = a[1]
            if not isinstance(o, Fixed):
                return
            rec.ok('fixed:' + name)
            if res is not pyop(sv, o._value) and res != pyop(sv, o._value):
                rec.fail('fixed:%s:wrong' % name, 'raw %s %s %s -> %r' % (sv, name, o._value, res))
        return post

    def post_round_factory(name, exact_of):
        def post(S, a, k, res):
            rnd = k.get('round', a[-1] if len(a) > (3 if name == 'muldiv' else 2) else None)
            n = 3 if name == 'muldiv' else 2
            raws = [fx_raw(x, S) for x in a[:n]]
            if any(r is None for r in raws) or rnd not in ('down', 'up'):
                return
            if not is_fixed(res, name):
                return
            ex = exact_of(S, raws)
            fl = _floor(ex)
            want = fl + (1 if (rnd == 'up' and ex != fl) else 0)
            rec.ok('fixed:%s:%s' % (name, rnd))
            if ex != fl:
                rec.mark(name, rnd, S, tuple(raws))
            if res._value != want:
                rec.fail('fixed:%s-%s:wrong-rounding' % (name, rnd), '%s(%s, round=%s) -> raw %s, expected %s (exact %s, p=%d)'
                         % (name, raws, rnd, res._value, want, ex, cls.precision))
        return post

    def post_bool(S, a, k, res, sv):
        rec.ok('fixed:__bool__')
        if res != (sv != 0):
            rec.fail('fixed:__bool__:wrong', 'bool(raw %s) -> %r' % (sv, res))

    wrap('__add__', exact_binop('__add__', operator.add))
    wrap('__sub__', exact_binop('__sub__', operator.sub))
    wrap('__mul__', post_mul)
    for nm in ('__floordiv__', '__div__', '__truediv__'):
        wrap(nm, post_div_factory(nm))
    wrap('__neg__', post_unary('__neg__', operator.neg))
    wrap('__pos__', post_unary('__pos__', operator.pos))
    wrap('__abs__', post_unary('__abs__', abs))
    wrap('__bool__', post_bool)
    for nm, op in (('__eq__', operator.eq), ('__ne__', operator.ne), ('__lt__', operator.lt), ('__le__', operator.le),
                   ('__gt__', operator.gt), ('__ge__', operator.ge)):
        wrap(nm, post_cmp(nm, op))
    wrap('mul', post_round_factory('mul', lambda S, r: Fraction(r[0] * r[1], S)), True)
    wrap('div', post_round_factory('div', lambda S, r: Fraction(r[0] * S, r[1])), True)
    wrap('muldiv', post_round_factory('muldiv', lambda S, r: Fraction(r[0] * r[1], r[2])), True)

    # min
    orig_min = cls.__dict__['min']
    saved['min'] = orig_min
    fmin = orig_min.__func__

    def wmin(c, vals):
        res = fmin(c, vals)
        try:
            if all(isinstance(v, Fixed) for v in vals) and vals:
                rec.ok('fixed:min')
                lo = min(v._value for v in vals)
                if not isinstance(res, Fixed) or res._value != lo:
                    rec.fail('fixed:min:wrong', 'min of %s -> %s' % ([v._value for v in vals], getattr(res, '_value', res)))
        except Exception as e:      # pylint: disable=broad-except
            rec.fail('fixed:min:contract-error', repr(e))
        return res
    setattr(cls, 'min', classmethod(wmin))

    def remove():
        for name, orig in saved.items():
            setattr(cls, name, orig)
    return remove


# ------------------------------------------------------------------------------------------
# Rational
# ------------------------------------------------------------------------------------------

def _fr(x):
    if isinstance(x, bool):
        return None
    if isinstance(x, (int, Fraction)):
        return Fraction(x)
    return None


def install_rational(rec):
    saved = {}
    cls = Rational
    binops = {'add': operator.add, 'sub': operator.sub, 'mul': operator.mul, 'truediv': operator.truediv,
              'floordiv': operator.floordiv, 'mod': operator.mod}

    def wrap_bin(name, pyop, reflected):
        attr = '__%s%s__' % ('r' if reflected else '', name)
        orig = cls.__dict__.get(attr)
        saved[attr] = orig                  # None: inherited from Fraction, restore by deleting our wrapper
        if orig is None:
            orig = getattr(cls, attr)

        def w(self, other):
            res = orig(self, other)
            try:
                a, b = _fr(self), _fr(other)
                if a is not None and b is not None and res is not NotImplemented:
                    want = pyop(b, a) if reflected else pyop(a, b)
                    rec.ok('rational:' + attr)
                    if type(res) is not Rational:
                        rec.fail('rational:%s:result-type' % attr, '%s returned %r' % (attr, type(res)))
                    elif Fraction(res) != Fraction(want):
                        rec.fail('rational:%s:not-exact' % attr, '%s(%s, %s) -> %s, exact %s' % (attr, a, b, res, want))
            except ZeroDivisionError:
                pass
            except Exception as e:      # pylint: disable=broad-except
                rec.fail('rational:%s:contract-error' % attr, repr(e))
            return res
        w.__name__ = attr
        setattr(cls, attr, w)

    for nm, op in binops.items():
        wrap_bin(nm, op, False)
        wrap_bin(nm, op, True)

    def wrap_un(name, pyop):
        attr = '__%s__' % name
        orig = cls.__dict__.get(attr)
        saved[attr] = orig
        if orig is None:
            orig = getattr(cls, attr)

        def w(self):
            res = orig(self)
            try:
                rec.ok('rational:' + attr)
                if type(res) is not Rational:
                    rec.fail('rational:%s:result-type' % attr, '%s returned %r' % (attr, type(res)))
                elif Fraction(res) != pyop(Fraction(self)):
                    rec.fail('rational:%s:wrong' % attr, '%s(%s) -> %s' % (attr, Fraction(self), res))
            except Exception as e:      # pylint: disable=broad-except
                rec.fail('rational:%s:contract-error' % attr, repr(e))
            return res
        setattr(cls, attr, w)

    wrap_un('neg', operator.neg)
    wrap_un('pos', operator.pos)
    wrap_un('abs', abs)

    def wrap_static(name, exact_of, n):
        orig = cls.__dict__[name]
        saved[name] = orig
        f = orig.__func__

        def w(*a, **k):
            res = f(*a, **k)
            try:
                ops = [_fr(x) for x in a[:n]]
                if all(o is not None for o in ops):
                    rec.ok('rational:' + name)
                    want = exact_of(ops)
                    if type(res) is not Rational:
                        rec.fail('rational:%s:result-type' % name, '%s returned %r' % (name, type(res)))
                    elif Fraction(res) != want:
                        rec.fail('rational:%s:not-exact' % name, '%s%s -> %s, exact %s' % (name, tuple(ops), res, want))
            except ZeroDivisionError:
                pass
            except Exception as e:      # pylint: disable=broad-except
                rec.fail('rational:%s:contract-error' % name, repr(e))
            return res
        setattr(cls, name, staticmethod(w))

    wrap_static('mul', lambda o: o[0] * o[1], 2)
    wrap_static('div', lambda o: o[0] / o[1], 2)
    wrap_static('muldiv', lambda o: o[0] * o[1] / o[2], 3)

    # min: the exact minimum (decided on integers by cross-multiplication, never through a float or Rational's own operators)
    def _pair(x):
        return (x.numerator, x.denominator)

    def _less(x, y):
        return x[0] * y[1] < y[0] * x[1]

    orig_min = cls.__dict__['min']
    saved['min'] = orig_min
    fmin = orig_min.__func__

    def wmin(c, vals):
        vals = list(vals)
        res = fmin(c, vals)
        try:
            if vals and all(isinstance(v, (int, Fraction)) and not isinstance(v, bool) for v in vals):
                rec.ok('rational:min')
                pr = _pair(res)
                if pr[1] <= 0 or any(_less(_pair(v), pr) for v in vals) or not any(_pair(v)[0] * pr[1] == pr[0] * _pair(v)[1] for v in vals):
                    rec.fail('rational:min:wrong', 'min of %s -> %s' % ([str(Fraction(v)) for v in vals][:4], Fraction(res)))
        except Exception as e:      # pylint: disable=broad-except
            rec.fail('rational:min:contract-error', repr(e))
        return res
    setattr(cls, 'min', classmethod(wmin))

    cmps = {'__eq__': lambda a, b: a[0] * b[1] == b[0] * a[1], '__ne__': lambda a, b: a[0] * b[1] != b[0] * a[1],
            '__lt__': lambda a, b: a[0] * b[1] < b[0] * a[1], '__le__': lambda a, b: a[0] * b[1] <= b[0] * a[1],
            '__gt__': lambda a, b: a[0] * b[1] > b[0] * a[1], '__ge__': lambda a, b: a[0] * b[1] >= b[0] * a[1]}

    def wrap_cmp(attr, want_of):
        orig = cls.__dict__.get(attr)
        saved[attr] = orig
        if orig is None:
            orig = getattr(cls, attr)

        def w(self, other):
            res = orig(self, other)
            try:
                if isinstance(other, (int, Fraction)) and not isinstance(other, bool) and res is not NotImplemented:
                    rec.ok('rational:' + attr)
                    want = want_of(_pair(self), _pair(other))
                    if res is not want:
                        rec.fail('rational:%s:wrong' % attr, '%s(%s, %s) -> %r' % (attr, Fraction(self), Fraction(other), res))
            except Exception as e:      # pylint: disable=broad-except
                rec.fail('rational:%s:contract-error' % attr, repr(e))
            return res
        w.__name__ = attr
        setattr(cls, attr, w)

    for attr, want_of in cmps.items():
        wrap_cmp(attr, want_of)
    if '__hash__' not in cls.__dict__:
        saved['__hash__'] = None
        cls.__hash__ = Fraction.__hash__        # defining __eq__ on the class would otherwise clear the hash

    def remove():
        for name, orig in saved.items():
            if orig is None:
                delattr(cls, name)
            else:
                setattr(cls, name, orig)
    return remove


# ------------------------------------------------------------------------------------------
# Guarded comparisons (C13 a)
# ------------------------------------------------------------------------------------------

def guarded_geps():
    return max(1, (10 ** Guarded.guard) // 2)


def install_guarded_cmp(rec):
    saved = {}
    cls = Guarded
    spec = {
        '__eq__': lambda d, g: abs(d) < g,
        '__ne__': lambda d, g: abs(d) >= g,
        '__lt__': lambda d, g: d <= -g,
        '__le__': lambda d, g: d < g,
        '__gt__': lambda d, g: d >= g,
        '__ge__': lambda d, g: d > -g,
    }

    def wrap(name, want_of):
        orig = cls.__dict__[name]
        saved[name] = orig

        def w(self, other):
            sv = self._value
            res = orig(self, other)
            try:
                if isinstance(other, Guarded):
                    g = guarded_geps()
                    d = sv - other._value
                    rec.ok('guarded:' + name)
                    if abs(abs(d) - g) <= 1:
                        rec.mark(name, g, d)        # comparison on the tolerance boundary
                    if bool(res) != want_of(d, g):
                        rec.fail('guarded:%s:tolerance-law' % name, 'raw %s %s %s (diff %s, geps %s, p=%s g=%s) -> %r'
                                 % (sv, name, other._value, d, g, cls.precision, cls.guard, res))
                    if self._value != sv:
                        rec.fail('guarded:%s:operand-mutated' % name, 'comparison mutated an operand')
                    # the comparison statistics are, by their own definition, the extremes over every comparison made: the largest
                    # difference that counted as equal (maxDiff) and the smallest that did not (minDiff); the claim "statistics
                    # clean => same count as exact arithmetic" rests on no comparison escaping them
                    ad = abs(d)
                    if ad < g:
                        if cls.maxDiff < ad:
                            rec.fail('guarded:statistics-miss-a-comparison:%s' % name, '%s on raw %s, %s (diff %s < geps %s) left maxDiff at %s'
                                     % (name, sv, other._value, d, g, cls.maxDiff))
                    elif cls.minDiff > ad:
                        rec.fail('guarded:statistics-miss-a-comparison:%s' % name, '%s on raw %s, %s (diff %s >= geps %s) left minDiff at %s'
                                 % (name, sv, other._value, d, g, cls.minDiff))
            except Exception as e:      # pylint: disable=broad-except
                rec.fail('guarded:%s:contract-error' % name, repr(e))
            return res
        setattr(cls, name, w)

    for nm, f in spec.items():
        wrap(nm, f)

    def remove():
        for name, orig in saved.items():
            setattr(cls, name, orig)
    return remove


# ------------------------------------------------------------------------------------------
# __str__ (C14)
# ------------------------------------------------------------------------------------------

def exact_of(v):
    "(exact Fraction value, display digits, precision or None, kind)"
    if isinstance(v, Rational):
        return Fraction(v), Rational.dp, None, 'rational'
    if isinstance(v, Fixed):
        return Fraction(v._value, 10 ** Fixed.precision), Fixed.display, Fixed.precision, 'fixed'
    return Fraction(v._value, 10 ** (Guarded.precision + Guarded.guard)), Guarded.display, Guarded.precision, 'guarded'


def judge_str(v, text):
    """
    Contract for the printed form.  Returns (key, message) or None.
    Half-up on the exact value; for negative exact ties both "toward +inf" and "away from zero" are accepted.
    """
    x, d, p, kind = exact_of(v)
    t = text
    neg = t.startswith('-')
    body = t[1:] if neg else t
    if kind == 'fixed' and p == 0:
        if not body.isdigit():
            return ('%s:str:format' % kind, 'integer value printed as %r' % text)
        shown = Fraction(int(t))
        if shown != x:
            return ('%s:str:value' % kind, 'integer %s printed as %r' % (x, text))
        return None
    if kind == 'guarded' and d > p:
        if body.count('_') != 1:
            return ('guarded:str:underscore', 'display %d > precision %d but no single underscore in %r' % (d, p, text))
        ip, fp = body.split('.', 1) if '.' in body else (body, '')
        head, tail = fp.split('_')
        if len(head) != p or len(tail) != d - p:
            return ('guarded:str:underscore-position' if p > 0 else 'guarded-p0-underscore',
                    'expected %d digits, "_", %d digits after the point, got %r (p=%d g=%d d=%d)' % (p, d - p, text, p, Guarded.guard, d))
        digits = head + tail
    else:
        if '_' in body:
            return ('%s:str:underscore' % kind, 'unexpected underscore in %r' % text)
        if '.' in body:
            ip, digits = body.split('.', 1)
        else:
            ip, digits = body, ''
        if d >= 1 and len(digits) != d:
            return ('%s:str:digit-count' % kind, '%r has %d fractional digits, display is %d' % (text, len(digits), d))
        if d == 0 and digits not in ('', '0'):
            return ('%s:str:digit-count' % kind, '%r printed at display 0' % text)
    if not ip.isdigit() or (digits and not digits.isdigit()):
        return ('%s:str:format' % kind, 'not a decimal number: %r' % text)
    nd = len(digits) if not (d == 0) else 0
    shown = Fraction(int(ip + digits) if nd else int(ip), 10 ** nd)
    if neg:
        shown = -shown
    scale = 10 ** d
    up = Fraction(math.floor(x * scale + Fraction(1, 2)), scale)        # half toward +infinity
    away = -Fraction(math.floor(-x * scale + Fraction(1, 2)), scale)    # half away from zero (negatives)
    ok = shown == up or (x < 0 and shown == away)
    if not ok:
        return ('%s:str:rounding' % kind, 'value %s printed as %r, half-up at %d digits is %s' % (x, text, d, up))
    if neg and x >= 0 and shown != 0:
        return ('%s:str:sign' % kind, 'non-negative %s printed as %r' % (x, text))
    if (not neg) and x < 0 and shown != 0:
        return ('%s:str:sign' % kind, 'negative %s printed without sign: %r' % (x, text))
    if neg and x > 0:
        return ('%s:str:sign' % kind, 'positive %s printed as %r' % (x, text))
    return None


def install_str(rec, classes=(Fixed, Guarded, Rational)):
    saved = []
    for cls in classes:
        orig = cls.__dict__['__str__']
        saved.append((cls, orig))

        def make(orig, cls):
            def w(self):
                before = self._value if cls is not Rational else (self.numerator, self.denominator)
                text = orig(self)
                try:
                    rec.ok('%s:__str__' % cls.__name__.lower())
                    r = judge_str(self, text)
                    if r:
                        rec.fail(*r)
                    after = self._value if cls is not Rational else (self.numerator, self.denominator)
                    if after != before:
                        rec.fail('%s:str:value-altered' % cls.__name__.lower(), 'printing changed the value')
                    x, d, p, kind = exact_of(self)
                    if x < 0 or (x * 10 ** d) % 1 != 0:
                        rec.mark(kind, d, p, x)
                except Exception as e:      # pylint: disable=broad-except
                    rec.fail('%s:str:contract-error' % cls.__name__.lower(), repr(e))
                return text
            return w
        setattr(cls, '__str__', make(orig, cls))

    def remove():
        for cls, orig in saved:
            setattr(cls, '__str__', orig)
    return remove
