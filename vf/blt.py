"""
Adversarial but well-formed BLT renderings (DESIGN Appendix B) and the expectation model that says
what election a structure denotes once parsed (withdrawn removed, empty ballots dropped, ...).

Rich structure fields beyond vf/gen.py:
  nick        list of nCand nicknames (non-decimal, unique) or None
  use_nick    refer to candidates by nickname where possible
  wd_style    'minus' | 'option' | 'mixed'
  ids         True -> every ballot carries a "(id)" instead of a multiplier (multipliers must be 1)
  eq          rankings are lists of groups
  source, comment, options
"""
import random

WORDS = ['alpha', 'b', 'x1', 'Q', 'zeta', '7up', 'a=b', 'it#s', 'o/*k', 'ok*/z', 'é', 'ß', '名', 'a]b', '(p)', '-3', '0', '12']
SAFE_WORDS = ['alpha', 'bee', 'x1', 'Q', 'zeta', 'é', '名', 'ß9']


def rand_name(rng):
    k = rng.random()
    if k < 0.08:
        return ''
    n = rng.randint(1, 3)
    ws = []
    for i in range(n):
        w = rng.choice(WORDS)
        ws.append(w)
    # the parser closes a quoted string at the first word ending in '"' and opens at a word starting with '"'; our words have none
    return ' '.join(ws)


def expected(s):
    "the election a structure denotes, as the public attributes of ElectionProfile"
    nc = s['nc']
    wd = set(s['withdrawn'])
    lines, lines_eq = [], []
    nb = 0
    for m, r in s['lines']:
        if s.get('eq'):
            groups = [[c for c in g if c not in wd] for g in r]
            groups = [g for g in groups if g]
            if not groups:
                continue
            nb += m
            if any(len(g) > 1 for g in groups):
                lines_eq.append((m, tuple(list(g) for g in groups)))
            else:
                lines.append((m, [g[0] for g in groups]))
        else:
            rr = [c for c in r if c not in wd]
            if not rr:
                continue
            nb += m
            lines.append((m, rr))
    tie = s.get('tie')
    exp = dict(
        nCand=nc, nSeats=s['ns'], nBallots=nb,
        eligible=set(range(1, nc + 1)) - wd, withdrawn=wd, undeclared=set(s.get('undeclared', [])),
        candidateName={c: s['names'][c - 1] for c in range(1, nc + 1)},
        candidateOrder={c: c for c in range(1, nc + 1)},
        tieOrder={c: (tie.index(c) + 1) for c in range(1, nc + 1)} if tie else {c: c for c in range(1, nc + 1)},
        nickName={c: s['nick'][c - 1] for c in range(1, nc + 1)} if s.get('nick') else {c: str(c) for c in range(1, nc + 1)},
        title=s.get('title', 'T'), source=s.get('source'), comment=s.get('comment'),
        options=list(s.get('options', [])),
        ballotLines=lines, ballotLinesEqual=lines_eq)
    return exp


def compare(p, exp):
    "list of differences between a parsed ElectionProfile and the expectation"
    diffs = []

    def d(name, got, want):
        if got != want:
            diffs.append('%s: parsed %r, expected %r' % (name, got, want))
    d('nCand', p.nCand, exp['nCand'])
    d('nSeats', p.nSeats, exp['nSeats'])
    d('nBallots', p.nBallots, exp['nBallots'])
    d('eligible', set(p.eligible), exp['eligible'])
    d('withdrawn', set(p.withdrawn), exp['withdrawn'])
    d('undeclared', set(p.undeclared), exp['undeclared'])
    d('candidateName', dict(p.candidateName), exp['candidateName'])
    d('candidateOrder', dict(p.candidateOrder), exp['candidateOrder'])
    d('tieOrder', dict(p.tieOrder), exp['tieOrder'])
    d('nickName', dict(p.nickName), exp['nickName'])
    d('title', p.title, exp['title'])
    d('source', p.source, exp['source'])
    d('comment', p.comment, exp['comment'])
    d('options', list(p.options), exp['options'])
    d('ballotLines', [(bl.multiplier, list(bl.ranking)) for bl in p.ballotLines], exp['ballotLines'])
    d('ballotLinesEqual', [(bl.multiplier, tuple(list(g) for g in bl.ranking)) for bl in p.ballotLinesEqual], exp['ballotLinesEqual'])
    return diffs


def invariants(p):
    "the 'no accepted profile contains ...' clauses; returns list of broken ones"
    bad = []
    n = p.nCand
    allc = set(range(1, n + 1))
    if set(p.eligible) | set(p.withdrawn) != allc:
        bad.append('eligible | withdrawn != all candidates')
    if set(p.eligible) & set(p.withdrawn):
        bad.append('eligible and withdrawn overlap')
    if not set(p.withdrawn) <= allc:
        bad.append('withdrawn candidate out of range: %s' % sorted(set(p.withdrawn) - allc))
    if not set(p.undeclared) <= allc:
        bad.append('undeclared candidate out of range')
    if not (isinstance(p.nSeats, int) and 1 <= p.nSeats <= len(p.eligible)):
        bad.append('seats %r not in 1..eligible(%d)' % (p.nSeats, len(p.eligible)))
    if p.nBallots < len(p.eligible):
        bad.append('fewer ballots (%s) than eligible candidates (%d)' % (p.nBallots, len(p.eligible)))
    tot = 0
    for bl in p.ballotLines:
        r = list(bl.ranking)
        if len(set(r)) != len(r):
            bad.append('repeated candidate in a ranking')
        if not all(isinstance(c, int) and 1 <= c <= n for c in r):
            bad.append('out-of-range candidate in a ranking')
        if any(c in p.withdrawn for c in r):
            bad.append('withdrawn candidate in a ranking')
        if not r:
            bad.append('empty ballot kept')
        if not (isinstance(bl.multiplier, int) and bl.multiplier >= 1):
            bad.append('multiplier %r < 1' % (bl.multiplier,))
        tot += bl.multiplier
    for bl in p.ballotLinesEqual:
        r = [c for g in bl.ranking for c in g]
        if len(set(r)) != len(r):
            bad.append('repeated candidate in an equal-rank ballot')
        if not all(isinstance(c, int) and 1 <= c <= n for c in r):
            bad.append('out-of-range candidate in an equal-rank ballot')
        if any(c in p.withdrawn for c in r):
            bad.append('withdrawn candidate in an equal-rank ballot')
        if not r or any(len(g) == 0 for g in bl.ranking):
            bad.append('empty rank / ballot kept')
        if not (isinstance(bl.multiplier, int) and bl.multiplier >= 1):
            bad.append('multiplier %r < 1' % (bl.multiplier,))
        tot += bl.multiplier
    if tot != p.nBallots:
        bad.append('ballot total %s != sum of kept multipliers %s' % (p.nBallots, tot))
    if set(p.candidateName) != allc:
        bad.append('candidate names do not cover 1..nCand')
    # a strict total order on the candidates is all a count needs (a sloppy but accepted "[tie 1 2 1 4 3]" leaves a gap in the
    # position numbers, which is harmless)
    if set(p.tieOrder) != allc or len(set(p.tieOrder.values())) != len(allc):
        bad.append('tie order does not strictly order all candidates')
    if set(p.nickName) != allc:
        bad.append('nicknames do not cover 1..nCand')
    return sorted(set(bad))


# ------------------------------------------------------------------------------------------
# adversarial rendering
# ------------------------------------------------------------------------------------------

def _comment(rng, depth=0):
    "a comment as a list of tokens (no newline inside unless it is a # comment, handled by caller)"
    words = ['note', 'x', '12', '0', '"quoted"', '"open', 'close"', '[tie', ']', '-2', '#hash', '(id)', '1=2', 'é']
    toks = ['/*']
    for _ in range(rng.randint(0, 3)):
        if depth < 2 and rng.random() < 0.2:
            toks += _comment(rng, depth + 1)
        else:
            toks.append(rng.choice(words))
    toks.append('*/')
    if rng.random() < 0.3 and len(toks) > 3:
        # glue the delimiters to plain comment words (never to nested delimiters)
        def plain(w):
            return '/*' not in w and '*/' not in w
        if plain(toks[1]):
            toks = ['/*' + toks[1]] + toks[2:]
        if plain(toks[-2]) and len(toks) > 2:
            toks = toks[:-2] + [toks[-2] + '*/']
    return toks


def tokens(s, rng, features):
    """
    token stream (list of strings, '\\n' marks a forced line break) for structure s.
    features: set collecting which optional features this rendering used
    """
    nc = s['nc']
    nick = s.get('nick')

    def ref(c):
        if nick and s.get('use_nick') and rng.random() < 0.8:
            features.add('nick-ref')
            return nick[c - 1]
        return str(c)

    out = [str(nc), str(s['ns'])]
    items = []
    if nick:
        items.append(('nick', ['[nick'] + list(nick)))
        features.add('nick')
    wd = list(s['withdrawn'])
    style = s.get('wd_style', 'minus')
    wd_items = []
    if wd:
        if style == 'minus':
            wd_items = [('minus', ['-%d' % c]) for c in wd]
            features.add('wd-minus')
        elif style == 'option':
            wd_items = [('wopt', ['[withdrawn'] + [ref(c) for c in wd])]
            features.add('wd-option')
        else:
            k = rng.randint(1, len(wd))
            wd_items = [('minus', ['-%d' % c]) for c in wd[:k]]
            if wd[k:]:
                wd_items.append(('wopt', ['[withdrawn'] + [ref(c) for c in wd[k:]]))
            rng.shuffle(wd_items)
            features.add('wd-mixed')
    if s.get('tie'):
        items.append(('tie', ['[tie'] + [ref(c) for c in s['tie']]))
        features.add('tie')
    if s.get('undeclared'):
        und = list(s['undeclared'])
        if len(und) >= 2 and rng.random() < 0.5:
            # the write-ins listed on several [undeclared ...] items (each item adds to the set, as [withdrawn ...] items do)
            k = rng.randint(1, len(und) - 1)
            items.append(('und', ['[undeclared'] + [ref(c) for c in und[:k]]))
            items.append(('und', ['[undeclared'] + [ref(c) for c in und[k:]]))
            features.add('undeclared-in-several-items')
        else:
            items.append(('und', ['[undeclared'] + [ref(c) for c in und]))
        features.add('undeclared')
    if s.get('options'):
        items.append(('droop', ['[droop'] + list(s['options'])))
        features.add('droop')
    items += wd_items
    rest = [it for it in items if it[0] != 'nick']
    rng.shuffle(rest)
    items = [it for it in items if it[0] == 'nick'] + rest      # [nick] precedes every use of a nickname
    for kind, toks in items:
        if kind == 'minus':
            out += toks
            continue
        style = rng.randint(0, 2)
        if len(toks) == 1:
            out.append(toks[0] + ']')           # empty list: "[withdrawn]"
        elif style == 0:
            out += toks[:-1] + [toks[-1] + ']']
        else:
            out += toks + [']']
        if rng.random() < 0.3:
            features.add('comment-in-option')
            # a comment between the tokens of the list
            pos = len(out) - rng.randint(1, max(1, len(toks) - 1))
            out[pos:pos] = _comment(rng)
    bid = 0
    split_ids = rng.random() < 0.3      # ids of several words that differ only in where the blanks fall ("box 1 012", "box 10 12")
    for m, r in s['lines']:
        if s.get('ids'):
            bid += 1
            if split_ids:
                digits = str(1000 + bid // 3)
                cut = 1 + bid % 3
                idw = rng.choice(['box', 'p']) + ' ' + digits[:cut] + ' ' + digits[cut:]
                features.add('ballot-ids-differing-in-blanks')
            else:
                idw = rng.choice(['b%d' % bid, 'id %d' % bid, ' x%d ' % bid, 'ballot no %d' % bid])
            words = ('(' + idw + ')').split(' ')
            words = [w for w in words if w != ''] if rng.random() < 0.5 else ('(' + idw.strip() + ')').split(' ')
            out += [w for w in words if w != '']
            features.add('ballot-ids')
        else:
            out.append(str(m))
        if s.get('eq'):
            for g in r:
                out.append('='.join(ref(c) for c in g))
                if len(g) > 1:
                    features.add('equal-rank')
        else:
            out += [ref(c) for c in r]
        if not r:
            features.add('empty-ballot')
        out.append('0')
    out.append('0')
    for n in s['names']:
        out += ('"%s"' % n).split(' ')
    out += ('"%s"' % s.get('title', 'T')).split(' ')
    if s.get('source') is not None:
        out += ('"%s"' % s['source']).split(' ')
        features.add('source')
        if s.get('comment') is not None:
            out += ('"%s"' % s['comment']).split(' ')
            features.add('comment')
    if rng.random() < 0.15:
        out += ['trailing', 'junk', '17']
        features.add('junk')
    return out


def layout(toks, rng, features, comments=True):
    "split a token stream into lines with random spacing, blank lines and comments between tokens"
    lines = []
    cur = []
    in_quote = False
    depth = 0           # inside a block comment that is already part of the token stream
    for t in toks:
        # comments are only inserted between tokens that are neither inside a quoted string nor inside a comment
        starts = t.startswith('"') and depth == 0
        if not in_quote and depth == 0 and comments and rng.random() < 0.07:
            if rng.random() < 0.5:
                cur += _comment(rng)
                features.add('block-comment')
            else:
                cur.append(rng.choice(['# rest of line', '#c "x" /* y', '#']))
                features.add('hash-comment')
                lines.append(cur)
                cur = []
        cur.append(t)
        if not in_quote:
            if t.startswith('/*'):
                depth += 1
            if depth:
                if t.endswith('*/'):
                    depth -= 1
                if rng.random() < 0.1:
                    lines.append(cur)
                    cur = []
                continue
        if starts and not in_quote:
            in_quote = True
        if in_quote and t.endswith('"') and (len(t) > 1 or not starts):
            in_quote = False
        elif in_quote and t == '"' and starts:
            # a lone quote opens and closes per the tokenizer
            in_quote = False
        if rng.random() < 0.25:
            lines.append(cur)
            cur = []
            if rng.random() < 0.1:
                lines.append([])
                features.add('blank-line')
    if cur:
        lines.append(cur)
    seps = [' ', '  ', '\t', ' \t ']
    body = [rng.choice(['', ' ', '\t']) + rng.choice(seps).join(l) for l in lines]
    # line boundaries: mostly LF, sometimes CR LF / bare CR or one of the other boundaries str.splitlines() honours
    # (a '#' comment ends at any of them)
    if rng.random() < 0.25:
        ends = ['\n'] * 6 + ['\r\n', '\r\n', '\r', '\x0b', '\x0c', '\x1c', '\x1d', '\x1e', '\x85', '\u2028', '\u2029']
        features.add('unusual-line-ends')
        text = ''.join(l + rng.choice(ends) for l in body[:-1]) + (body[-1] if body else '')
    else:
        text = '\n'.join(body)
    return text + rng.choice(['', '\n', ' \n\n'])


def render(s, rng, features=None, comments=True):
    features = features if features is not None else set()
    return layout(tokens(s, rng, features), rng, features, comments)
