"""
Shared workload for the trace-based monitors: generate a structure and a configuration,
run the traced count, classify executions that decide nothing.
"""
import traceback
from . import gen, configs
from .harness import do_count, expected_domain_error, BudgetExceeded

MAX_PARTIAL_EVENTS = 1500
# (precision, threshold kind) of the fixed-point rules, for the exact-hit family G3b
EXACT_HIT = {'wigm-prf': (4, 'eps'), 'wigm-prf-batch': (4, 'eps'), 'cfer': (5, 'eps'), 'cfer-batch': (5, 'eps'), 'scotland': (5, 'int'), 'mpls': (4, 'int')}
DEFAULT_WEIGHTS = dict(G1=3, G2=3, G3=2, G4=2, G5=1, G6=2, G7=2, G9=1, G10=2)


class Case:
    def __init__(self, s, opts, blt, run):
        self.s, self.opts, self.blt, self.run = s, opts, blt, run

    def replay_case(self, **extra):
        d = dict(blt=self.blt, options=self.opts, family=self.s.get('family'), entry=getattr(self, 'entry', 'dict'))
        d.update(extra)
        return d

    def hash(self, extra=''):
        return gen.canon_hash(self.s, configs.describe(self.opts) + extra)


OTHER_BLT = '4 2 5 1 2 0 4 2 3 0 3 3 1 0 2 4 2 0 1 1 4 0 0 "Ann" "Bo" "Cat" "Di" "Other election"'


def budget_for(ctx):
    return 2.0 if ctx.quick else 10.0


TRUE_WORDS, FALSE_WORDS = ['true', 'yes', 'True', 'YES', 'Yes', 'TRUE'], ['false', 'no', 'False', 'NO', 'No', 'FALSE']


def file_tokens(rng, opts, with_rule=True):
    toks = []
    for k, v in opts.items():
        if k == 'rule' and not with_rule:
            continue
        if isinstance(v, bool):
            v = rng.choice(TRUE_WORDS if v else FALSE_WORDS)
        toks.append('%s=%s' % (k, v))
    return toks


def election_args(entry, opts):
    "positional arguments after the profile for Election(...); None = the plain dict form"
    from droop.options import Options
    if entry == 'dict':
        return None
    if entry == 'file-omitted':
        return ()
    if entry == 'file-none':
        return (None,)
    if entry == 'split-dict':
        return (dict(rule=opts['rule']),)
    if entry == 'split-object':
        return (Options(dict(rule=opts['rule'])),)
    return (Options(dict(opts)),)


_CATALOGUE = {}


def catalogue():
    "rule name -> [(structure, options)] from vf/data/boundary_catalogue.json (tools/boundary_search.py)"
    if not _CATALOGUE:
        import os, json
        path = os.path.join(os.path.dirname(os.path.abspath(__file__)), 'data', 'boundary_catalogue.json')
        _CATALOGUE['_loaded'] = []
        if os.path.exists(path):
            for e in json.load(open(path))['entries']:
                st = dict(e['s'])
                st['lines'] = [(m, list(r)) for m, r in st['lines']]
                st['family'] = 'B'
                _CATALOGUE.setdefault(e['options']['rule'], []).append((st, dict(e['options'])))
    return _CATALOGUE


def catalogue_pick(rng, opts):
    lst = catalogue().get(opts['rule'])
    if not lst:
        return None
    st, o = rng.choice(lst)
    import copy
    st = copy.deepcopy(st)
    if opts['rule'] in ('wigm', 'meek', 'warren'):
        # the entry's own configuration (the coincidence belongs to its arithmetic), keeping presentation-only choices
        o = dict(o)
        if 'display' in opts and o.get('arithmetic') == 'fixed':
            o['display'] = min(opts['display'], o.get('precision', 0))
    else:
        o = dict(opts)
    return st, o


def make_case(ctx, rng, weights=None, rules=None, snap_ballots=False, render=False, allow_eq=True,
              meek_rational=False, allow_rational=True, budget=None, big=None, tweak=None, mutate_s=None):
    weights = dict(weights or DEFAULT_WEIGHTS)
    many = False
    n15 = getattr(ctx, '_g15', 0)
    if n15 < (2 if ctx.quick else 12) and 'G1' in weights and not render:
        # the first cases of every shard: an election with more than 256 candidates, the rule rotating over the shards so that one
        # run covers every Gregory-family rule name the check uses (their counts stay around a second at this size; the
        # iterative rules and the renderers do not, and are left to ordinary sizes)
        ctx._g15 = n15 + 1
        rl = [r for r in (rules or configs.ALL_RULES) if r in configs.GREGORY]
        if rl:
            rules = [rl[(ctx.shard * 2 + n15) % len(rl)]]
            many = True
    opts = configs.random_config(rng, rules, allow_rational=allow_rational, meek_rational=meek_rational)
    if tweak is not None:
        opts = tweak(rng, opts)
    if allow_eq and opts['rule'] in ('meek', 'warren') and rng.random() < 0.25:
        weights = dict(G8=1, G8b=1)
    if big is None:
        big = (not ctx.quick) and rng.random() < 0.3
    if opts.get('arithmetic') == 'rational' and opts['rule'] in ('meek', 'warren'):
        big = False
        weights = dict(G1=1, G6=1)
    s = None
    hit = EXACT_HIT.get(opts['rule'])
    if opts['rule'] == 'wigm' and opts.get('arithmetic') == 'fixed' and opts.get('precision', 9) >= 1:
        hit = (opts['precision'], 'int' if opts.get('integer_quota') else 'eps')
    if hit and rng.random() < (0.3 if opts['rule'].startswith('cfer') else 0.12) and 'G3' in weights:
        s = gen.g3b_exact_hit(rng, *hit)        # a transfer landing exactly on / beside the threshold
    if many:
        s = gen.g15_many_candidates(rng)
        budget = max(budget or 0, 10.0)
        ctx.count('cases_with_more_than_256_candidates')
    if s is None and rng.random() < 0.1 and 'G1' in weights:
        # an election from the boundary catalogue: one in which this rule compared two exactly equal values somewhere
        e = catalogue_pick(rng, opts)
        if e is not None:
            s, opts = e
            ctx.count('cases_from_the_boundary_catalogue')
    if s is None:
        s = gen.pick(rng, weights, big)
    if opts.get('arithmetic') == 'rational' and opts['rule'] in ('meek', 'warren'):
        # tiny profiles only: denominators double each iteration
        s['lines'] = s['lines'][:10]
        if s['nc'] > 5:
            keep = set(range(1, 6))
            s['lines'] = [(m, [c for c in r if c in keep]) for m, r in s['lines']]
            s['lines'] = [(m, r) for m, r in s['lines'] if r]
            s.update(nc=5, names=s['names'][:5], tie=[c for c in (s['tie'] or []) if c <= 5] or None,
                     withdrawn=[c for c in s['withdrawn'] if c <= 5], undeclared=[c for c in s['undeclared'] if c <= 5])
        gen.make_valid(s, rng)
    if rng.random() < 0.04 and opts['rule'] in configs.GREGORY:
        # an electorate far beyond what a float holds exactly: every multiplier scaled by 10^12..10^20 (plus a small offset).
        # Gregory rules only: their ballot values do not depend on the size of the electorate, whereas QPQ's 1/quotient and
        # Meek's omega are absolute quantities that the fixed number of digits cannot carry for 10^20 ballots (a domain limit)
        F = 10 ** rng.randint(12, 20)
        s['lines'] = [(m * F + rng.randint(0, 3), r) for m, r in s['lines']]
        s['family'] = s['family'] + '+huge'
    if mutate_s is not None:
        mutate_s(rng, s)
    entry = 'dict'
    k = rng.random()
    if k < 0.24 and not s.get('options'):
        # the same configuration reaching the election another way: written in the ballot file ([droop ...], booleans spelled any
        # accepted way), split between file and caller, or handed over as an Options object
        entry = ['file-omitted', 'file-none', 'split-dict', 'split-object', 'object', 'object'][int(k / 0.04)]
        if entry != 'object':
            s['options'] = file_tokens(rng, opts, with_rule=entry.startswith('file'))
    blt = gen.render(s)
    other = None
    if rng.random() < 0.08:
        # a caller embedding the package may construct another election (same rule and options) before counting this one
        other = OTHER_BLT
    run = do_count(blt, opts, budget=budget or budget_for(ctx), snap_ballots=snap_ballots, render=render, construct_also=other,
                   election_args=election_args(entry, opts))
    ctx.count('entry:' + entry)
    case = Case(s, opts, blt, run)
    case.entry = entry
    return case


def arith_tag(opts):
    return '%s/%s' % (opts['rule'], opts.get('arithmetic', 'default'))


def usable(ctx, case, partial_ok=True):
    """
    True when the execution completed and can be judged.  Budget overruns are 'not explored';
    exceptions raised by droop are outside every property except C01/C16 and are only counted.
    """
    run = case.run
    ctx.evaluated()
    if run.timed_out:
        ctx.count('not_explored:budget:' + arith_tag(case.opts))
        # the history recorded before the budget ran out is real: judge a capped prefix of it
        if not (partial_ok and run.phase == 'count' and run.E is not None and run.snaps):
            return False
        run.events = run.events[:MAX_PARTIAL_EVENTS]
        ctx.count('partial_histories_judged')
        ctx.count('partial_histories_after_budget_overrun')
        ctx.count('counts_judged')
        ctx.count('snapshots', len(run.snaps))
        return True
    if run.error is not None:
        # an exception is outside every trace property (C01 owns it), but the history recorded
        # before it was raised is real and is judged like any other
        ctx.count('count_raised:%s:%s' % (run.phase, type(run.error).__name__))
        if not (partial_ok and run.phase == 'count' and run.E is not None and run.snaps):
            ctx.count('skipped_outside_property')
            return False
        ctx.count('partial_histories_judged')
    if run.hook_calls == 0:
        ctx.count('hook_never_fired')
        return False
    ctx.count('counts_judged')
    ctx.count('rule:' + case.opts['rule'])
    ctx.count('arith:' + (case.run.cfg.describe().split()[0]))
    ctx.count('family:' + case.s['family'].split(':')[0])
    ctx.count('snapshots', len(run.snaps))
    ctx.shape(run.events)
    return True


def exc_site(e):
    "innermost frame inside the droop package: (file, function)"
    tb = traceback.extract_tb(e.__traceback__)
    site = None
    for fr in tb:
        if '/droop/' in fr.filename or fr.filename.endswith('Droop.py'):
            site = fr
    if site is None and tb:
        site = tb[-1]
    if site is None:
        return '?'
    return '%s:%s' % (site.filename.rsplit('/', 1)[-1], site.name)


def sample_of(case, n_events=12):
    run = case.run
    return dict(blt=case.blt, options=case.opts, family=case.s['family'],
                events=['%s r%s %s' % (e.tag, e.round, e.msg) for e in run.events if e.tag != 'log'][:n_events],
                winners=sorted(c.name for c in run.E.elected) if run.E is not None and run.E.elected is not None else None)


def replay_run(case_dict, snap_ballots=False, render=False, budget=60.0):
    return do_count(case_dict['blt'], case_dict['options'], budget=budget, snap_ballots=snap_ballots, render=render,
                    election_args=election_args(case_dict.get('entry', 'dict'), case_dict['options']))
