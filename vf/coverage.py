"""
Line-coverage evidence for the droop sources reached by a run: sys.monitoring LINE events
with DISABLE after the first hit, so the cost is one callback per distinct line.
"""
import os, sys

from .harness import REPO

TOOL = sys.monitoring.COVERAGE_ID
_PREFIX = os.path.realpath(REPO) + os.sep


def start():
    hits = set()
    mon = sys.monitoring

    def on_line(code, line):
        fn = code.co_filename
        if fn.startswith(_PREFIX):
            hits.add((fn[len(_PREFIX):], line))
        return mon.DISABLE

    try:
        mon.use_tool_id(TOOL, 'verif-cov')
    except ValueError:
        return None
    mon.register_callback(TOOL, mon.events.LINE, on_line)
    mon.set_events(TOOL, mon.events.LINE)
    return hits


def stop(hits):
    mon = sys.monitoring
    if hits is None:
        return {}
    mon.set_events(TOOL, 0)
    mon.register_callback(TOOL, mon.events.LINE, None)
    mon.free_tool_id(TOOL)
    out = {}
    for fn, ln in hits:
        if fn.startswith('droop') or fn == 'Droop.py':
            out.setdefault(fn, []).append(ln)
    return {k: sorted(v) for k, v in out.items()}


def _code_lines(path):
    "line numbers that carry code, from the compiled module (recursively)"
    try:
        src = open(path).read()
        co = compile(src, path, 'exec')
    except Exception:       # pylint: disable=broad-except
        return set()
    lines = set()
    stack = [co]
    while stack:
        c = stack.pop()
        for _, _, ln in c.co_lines():
            if ln is not None and ln > 0:
                lines.add(ln)
        for k in c.co_consts:
            if hasattr(k, 'co_lines'):
                stack.append(k)
    return lines


def summarise(cov, anchor_files=None):
    out = {}
    for fn in sorted(cov):
        if anchor_files is not None and fn not in anchor_files:
            continue
        total = _code_lines(os.path.join(REPO, fn))
        hit = set(cov[fn]) & total if total else set(cov[fn])
        out[fn] = '%d/%d lines' % (len(hit), len(total))
    return out
