"""
C08 -- Meek/Warren iterations keep their invariants and stop only when converged.
Hook invariant at the snapshots taken right after a distribution.
"""
from .. import stream, configs
from ..harness import Fixed, Guarded, Rational, raw

ID = 'C08'
LEVEL = 'exploration'
RULE_TEXT = ('profiles G1, G2, G6 (more seats than supported candidates: the quota decays geometrically), G12 (four cases per shard (60 in the thorough tier): 20-126 seats, all but one filled at once on bullet votes, so one round takes hundreds to thousands of distributions) and G8/G8b (equal-rank ballots, quota creep, '
             'recursive split; meek/warren only) x meek, warren (fixed p3-12, guarded p6-18 g0-9, default, tiny rational; omega <= '
             'precision; defeat_batch safe/none) and meek-prf. At every snapshot taken right after a distribution (meek/warren: the '
             "iterate and end actions; meek-prf: begin, end and every elect/tie/defeat with no exclusion since the last 'round') the monitor "
             'checks votes + residual == ballots on raw values, non-negative tallies/residual and the keep-factor ranges; every omega exit '
             'must have surplus <= omega (meek-prf: < omega), every stable exit a "Stable state detected" log, every exclusion a preceding '
             'end of iteration. non-trivial = count with >= 3 keep-factor updates (counted by a wrapper on the arithmetic\'s div) and an '
             'elected keep factor < 1')
ASSUMPTIONS = ['freshness rules of DESIGN 2.1 (meek-prf snapshots after an exclusion are outside the claim, as the property says)',
               'the candidate named by a defeat action still carries keep factor 1 in that action\'s snapshot']
MIN_COUNTERS = {'counts_judged': 200, 'counts_with_over_300_distributions': 5, 'fresh_snapshots_checked': 1000, 'omega_exits_checked': 100, 'exclusions_checked': 200,
                'kf_values_checked': 5000}
WEIGHTS = dict(G1=4, G2=2, G3=1, G4=2, G6=4, G7=1, G10=1, G11=2)
ANCHOR_FILES = ['droop/rules/meek.py', 'droop/rules/meek_prf.py', 'droop/rules/electionmethods.py']

DIV_CALLS = [0]


def install_div_counter():
    "count keep-factor updates: the Meek rules use V.div / V.muldiv for nothing else (either form of the update is counted)"
    for cls, name in [(c, n) for c in (Fixed, Guarded, Rational) for n in ('div', 'muldiv')]:
        orig = cls.__dict__[name]
        f = orig.__func__

        def make(f, is_static):
            if is_static:
                def div(*a, **k):
                    DIV_CALLS[0] += 1
                    return f(*a, **k)
                return staticmethod(div)

            def div(cls_, *a, **k):
                DIV_CALLS[0] += 1
                return f(cls_, *a, **k)
            return classmethod(div)
        setattr(cls, name, make(f, isinstance(orig, staticmethod)))


def check(run):
    out = []
    st = dict(fresh=0, omega=0, stable=0, excl=0, kf=0, elected_kf_lt1=False)
    E, cfg = run.E, run.cfg
    rule = E.rule.name
    prf = rule == 'meek-prf'
    nb = cfg.of_int(E.nBallots)
    one = cfg.of_int(1)
    wd = set(run.profile.withdrawn)
    omega = raw(E.rule.omega)

    def bad(key, msg, ev):
        out.append((key, '%s at action %d (%s: %s) under %s %s' % (msg, ev.idx, ev.tag, ev.msg, rule, cfg.describe()), dict(action=ev.idx)))

    defeat_since_round = False
    elect_since_round = False
    stable_log_in_round = False
    iterate_in_round = None     # kind of the last iterate action of this round
    prev = None
    for ev in run.events:
        if not ev.has_snap:
            if ev.tag == 'log':     # whatever its wording: a log action written during this round's iteration (the rules log nothing else there)
                stable_log_in_round = True
            continue
        if ev.tag == 'round':
            defeat_since_round = elect_since_round = stable_log_in_round = False
            iterate_in_round = None
        # ---------------- which snapshots follow a distribution directly
        if prf:
            fresh = ev.tag in ('begin', 'end') or (ev.tag in ('elect', 'tie', 'defeat') and not defeat_since_round)
        else:
            fresh = ev.tag in ('iterate', 'end')
        named = set()
        if ev.tag == 'defeat' and prev is not None:
            named = {cid for cid, c in ev.cands.items() if c.state == 'defeated' and prev.cands[cid].state != 'defeated'}
        if fresh:
            st['fresh'] += 1
            tallies = [c.vote for cid, c in ev.cands.items() if cid not in wd]
            if any(v < 0 for v in tallies):
                bad('negative-tally', 'a tally is negative', ev)
            if ev.residual is not None and ev.residual < 0:
                bad('negative-residual', 'residual %s < 0' % cfg.frac(ev.residual), ev)
            if ev.residual is not None and sum(tallies) + ev.residual != nb:
                bad('votes-plus-residual', 'votes %s + residual %s != %d ballots (off by %s raw)'
                    % (cfg.frac(sum(tallies)), cfg.frac(ev.residual), E.nBallots, nb - sum(tallies) - ev.residual), ev)
            for cid, c in ev.cands.items():
                if cid in wd:
                    continue
                st['kf'] += 1
                if c.state == 'hopeful':
                    if c.kf != one:
                        bad('hopeful-kf-not-1', 'hopeful candidate %d has keep factor %s' % (cid, cfg.frac(c.kf)), ev)
                elif c.state == 'defeated':
                    if cid not in named and c.kf != 0:
                        bad('defeated-kf-not-0', 'defeated candidate %d has keep factor %s' % (cid, cfg.frac(c.kf)), ev)
                elif c.state == 'elected':
                    if c.kf is None or not 0 < c.kf <= one:
                        key = 'elected-kf-out-of-range'
                        if c.kf == 0 and not prf and cfg.kind == 'guarded' and cfg.guard > 0:
                            # guarded arithmetic with guard digits ignores round='up': kf*quota truncates to zero
                            key = 'meek-guarded-kf-underflow'
                        bad(key, 'elected candidate %d has keep factor %s' % (cid, cfg.frac(c.kf)), ev)
                    elif c.kf < one:
                        st['elected_kf_lt1'] = True
        # ---------------- end-of-iteration discipline
        if ev.tag == 'iterate':
            kind = (ev.msg[ev.msg.index('(') + 1:ev.msg.rindex(')')].lower().split() or ['?'])[0]      # 'stable surplus' is still a stable exit
            iterate_in_round = kind
            if kind == 'omega':
                st['omega'] += 1
                if cfg.cmp(ev.surplus, omega) > 0:
                    bad('omega-exit-above-omega', 'iteration ended for convergence with surplus %s > omega %s'
                        % (cfg.frac(ev.surplus), cfg.frac(omega)), ev)
            elif kind == 'stable':
                st['stable'] += 1
                if not stable_log_in_round:
                    bad('stable-exit-not-logged', 'iteration ended as stable without any log action saying so in that round', ev)
        if ev.tag == 'defeat' and 'remaining' not in ev.msg.lower():
            st['excl'] += 1
            if prf:
                if not defeat_since_round:     # first (only) exclusion of the round: the pre-exclusion snapshot
                    if elect_since_round:
                        bad('exclusion-after-election-in-round', 'exclusion in a round whose iteration elected a candidate', ev)
                    if not stable_log_in_round:
                        st['omega'] += 1
                        if not ev.surplus < omega:
                            bad('exclusion-before-convergence', 'exclusion with surplus %s not below omega %s and no stable-state log'
                                % (cfg.frac(ev.surplus), cfg.frac(omega)), ev)
                    else:
                        st['stable'] += 1
            else:
                if iterate_in_round not in ('omega', 'stable', 'batch'):
                    bad('exclusion-without-end-of-iteration', 'exclusion not preceded in its round by an iterate (omega/stable/batch) action (last: %s)'
                        % iterate_in_round, ev)
        if ev.tag == 'defeat':
            defeat_since_round = True
        if ev.tag == 'elect':
            elect_since_round = True
        prev = ev
        if len(out) > 20:
            break
    return out, st


def slow_tweak(rng, opts):
    if rng.random() < 0.6:
        p = rng.randint(9, 14)
        return dict(rule=opts['rule'], arithmetic='fixed', precision=p, omega=rng.randint(p - 4, p - 2))
    return dict(rule=opts['rule'])


def shard(ctx):
    install_div_counter()
    n_min = 60 if ctx.quick else 400
    slow_done = 0
    for i, rng in ctx.cases(n_min, 10 ** 9):
        DIV_CALLS[0] = 0
        if i % 40 == 5 and slow_done < (4 if ctx.quick else 60):
            slow_done += 1
            # slowest convergence the rule has: hundreds to thousands of distributions in one round (an iteration that gives up early,
            # or ends without saying why, shows here and nowhere else)
            case = stream.make_case(ctx, rng, dict(G12=1), rules=['meek', 'warren'], allow_eq=False, budget=12.0, big=False, tweak=slow_tweak)
            ctx.count('slow_convergence_cases')
            if case.run.complete:
                ctx.count('kf_updates_in_slow_cases', DIV_CALLS[0])
                longest = DIV_CALLS[0] // max(1, case.s['ns'] - 1)
                for thr in (300, 1000, 2000):
                    if longest > thr:
                        ctx.count('counts_with_over_%d_distributions' % thr)
        else:
            case = stream.make_case(ctx, rng, WEIGHTS, rules=configs.MEEKS, meek_rational=True)
        if not stream.usable(ctx, case):
            continue
        vs, st = check(case.run)
        ctx.count('fresh_snapshots_checked', st['fresh'])
        ctx.count('omega_exits_checked', st['omega'])
        ctx.count('stable_exits_checked', st['stable'])
        ctx.count('exclusions_checked', st['excl'])
        ctx.count('kf_values_checked', st['kf'])
        ctx.count('kf_updates_observed', DIV_CALLS[0])
        if case.s.get('eq'):
            ctx.count('equal_rank_profiles')
        if DIV_CALLS[0] >= 3 and st['elected_kf_lt1']:
            ctx.mark_nontrivial(case.hash())
        ctx.sample(stream.sample_of(case))
        for key, msg, wit in vs:
            ctx.violation(key, msg, case.replay_case(), wit)


def replay(case):
    run = stream.replay_run(case)
    if run.timed_out or run.E is None:
        return []
    return [(k, m) for k, m, _ in check(run)[0]]
