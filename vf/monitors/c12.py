"""
C12 -- fixed-point and rational arithmetic compute exactly what they claim.
Postcondition contracts on the real Fixed / Rational methods against a Fraction shadow, driven
by an exhaustive small grid, random operands of all signs and magnitudes, and real counts.
"""
import itertools, random
from fractions import Fraction
from .. import stream, gen
from ..harness import Fixed, Rational, do_count
from ..valuecontracts import Recorder, install_fixed, install_rational
from droop.options import Options

ID = 'C12'
LEVEL = 'exploration'
EXHAUSTIVE = False
RULE_TEXT = ('contracts (postconditions against fractions.Fraction) wrapped around every public operator and classmethod of Fixed '
             'and Rational; driven by (i) an exhaustive grid: every raw operand pair in [-60,60]^2 (plus boundary values) and every '
             'triple in [-13,13]^3 for precision 0..4, all operations, both rounding directions - this sub-space is swept completely; '
             '(ii) random operands up to 10^40 in all sign patterns for precision 0..30, ints mixed in; (iii) the contracts left '
             'installed while real counts run (fixed, integer, rational; Gregory, Meek and statutory rules). non-trivial = an operation '
             'whose exact result is not representable (rounding actually happens); distinct = distinct (operation, precision, operands)')
ASSUMPTIONS = ['fractions.Fraction and Python integer arithmetic are the trusted shadow', 'zero divisors are outside the claim (ZeroDivisionError is not judged)']
MIN_COUNTERS = {'contract_evaluations': 200000, 'fixed_evaluations': 100000, 'rational_evaluations': 20000,
                'inexact_results': 20000, 'evaluations_inside_real_counts': 5000}
LINE_COVERAGE = True
ANCHOR_FILES = ['droop/values/fixed.py', 'droop/values/rational.py', 'droop/values/__init__.py']


def init_fixed(p, display=None):
    "display is a presentation option: it must not reach the arithmetic, so it is varied too"
    if p == 0 and random.random() < 0.5:
        Fixed.initialize(Options(dict(arithmetic='integer')))
    elif display is None:
        Fixed.initialize(Options(dict(arithmetic='fixed', precision=p)))
    else:
        Fixed.initialize(Options(dict(arithmetic='fixed', precision=p, display=display)))


def F(r):
    return Fixed(r, True)


def drive_fixed_pair(a, b, ints=True):
    "every binary operation on one operand pair (raw values)"
    x, y = F(a), F(b)
    x + y; x - y; x * y                           # noqa
    x == y; x != y; x < y; x <= y; x > y; x >= y  # noqa
    Fixed.mul(x, y, round='down'); Fixed.mul(x, y, round='up')
    Fixed.min([x, y]); Fixed.min([y, x, x]); Fixed.min([y, x])
    if b != 0:
        x / y; x // y; x.__div__(y)               # noqa
        Fixed.div(x, y, round='down'); Fixed.div(x, y, round='up')
    if ints and abs(b) < 10 ** 6:
        x * b; x + b; x - b                       # noqa
        Fixed.mul(x, b, round='up'); Fixed.mul(a if abs(a) < 10 ** 6 else 3, y, round='down')      # plain ints are accepted operands
        if b != 0:
            x / b; x // b                         # noqa
            Fixed.div(x, b, round='up'); Fixed.div(x, b, round='down')
            Fixed.muldiv(x, y, b, round='up')
    -x; +x; abs(x); bool(x)                       # noqa


def drive_fixed_triple(a, b, c):
    if c == 0:
        return
    x, y, z = F(a), F(b), F(c)
    Fixed.muldiv(x, y, z, round='down')
    Fixed.muldiv(x, y, z, round='up')


def drive_rational(rng, big):
    def rr():
        k = rng.random()
        if k < 0.2:
            return rng.randint(-5, 5)
        m = 10 ** rng.randint(1, 40) if big else 60
        if big and rng.random() < 0.15:
            m = 10 ** rng.randint(100, 700)        # denominators of thousands of bits, as long rational Meek iterations produce
        return Rational(rng.randint(-m, m), rng.randint(1, m))
    a, b, c = rr(), rr(), rr()
    k = rng.random()
    if k < 0.25:
        # operands a hair apart (closer than a double can tell), or both beyond the range of a double: exactness must not depend on size
        base = Rational(a) * rng.choice([1, 1, 10 ** 17, 10 ** 330, Rational(1, 10 ** 330)])
        eps = Rational(rng.choice([1, -1]), 10 ** rng.randint(17, 90)) * (abs(base) if base != 0 else 1)
        a, b, c = base, Rational(base + eps), Rational(base - eps * rng.choice([0, 1, 2]))
        if rng.random() < 0.5:
            a, b = b, a
    A = a if isinstance(a, Rational) else Rational(a)
    for op in ('+', '-', '*', '/', '//', '%'):
        try:
            if op == '+': A + b; b + A            # noqa
            elif op == '-': A - b; b - A          # noqa
            elif op == '*': A * b; b * A          # noqa
            elif op == '/': A / b; b / A          # noqa
            elif op == '//': A // b; b // A       # noqa
            else: A % b; b % A                    # noqa
        except ZeroDivisionError:
            pass
    -A; +A; abs(A)                                # noqa
    B = b if isinstance(b, Rational) else Rational(b)
    C = c if isinstance(c, Rational) else Rational(c)
    Rational.mul(A, B, round='down'); Rational.mul(A, B, round='up')
    try:
        Rational.div(A, B, round='up'); Rational.muldiv(A, B, C, round='down')
    except ZeroDivisionError:
        pass
    Rational.min([A, B, C]); Rational.min([C, B, A]); Rational.min([B, A])
    A == B; A != B; A < B; A <= B; A > B; A >= B; B < C; A == C  # noqa


def shard(ctx):
    rec = Recorder()
    rm1 = install_fixed(rec)
    rm2 = install_rational(rec)
    Rational.initialize(Options(dict(arithmetic='rational')))
    try:
        # ---- (i) exhaustive grid, partitioned over shards by the first operand
        vals = list(range(-60, 61)) + [99, 100, 101, 999, 1000, 1001, -99, -100, -101, -1000, 10 ** 4, -10 ** 4]
        mine = [a for i, a in enumerate(vals) if i % ctx.nshards == ctx.shard]
        before = rec.total()
        for p in range(0, 5):
            for disp in sorted({None, 0, max(0, p - 1)}, key=repr):
                init_fixed(p, disp)
                for a in mine:
                    for b in vals:
                        drive_fixed_pair(a, b)
        tri = list(range(-13, 14))
        mine3 = [a for i, a in enumerate(tri) if i % ctx.nshards == ctx.shard]
        for p in range(0, 5):
            init_fixed(p)
            for a in mine3:
                for b in tri:
                    for c in tri:
                        drive_fixed_triple(a, b, c)
        ctx.count('grid_evaluations', rec.total() - before)
        ctx.count('grid_complete_shards')
        # ---- (ii) random operands
        n_min = 300 if ctx.quick else 3000
        t_end = 0.45
        for i, rng in ctx.cases(n_min, 10 ** 9):
            if (ctx.deadline - __import__('time').monotonic()) < ctx.budget_s * (1 - t_end) and i >= n_min:
                break
            p = rng.randint(0, 30)
            init_fixed(p, rng.choice([None, None, 0, 1, rng.randint(0, p)]))
            for _ in range(20):
                mag = 10 ** rng.randint(0, 40)
                a, b, c = (rng.randint(-mag, mag) for _ in range(3))
                if rng.random() < 0.2:
                    b = rng.choice([0, 1, -1, 10 ** p, -10 ** p, a, -a, a + 1, a - 1, a + 1, -a + 1])
                try:
                    drive_fixed_pair(a, b, ints=rng.random() < 0.5)
                    drive_fixed_triple(a, b, c)
                except Exception as e:      # pylint: disable=broad-except
                    rec.fail('fixed:operation-raised:' + type(e).__name__, 'operands %s %s %s at precision %s: %r' % (a, b, c, p, e))
            for _ in range(10):
                try:
                    drive_rational(rng, rng.random() < 0.7)
                except Exception as e:      # pylint: disable=broad-except
                    rec.fail('rational:operation-raised:' + type(e).__name__, repr(e)[:300])
            ctx.evaluated(30)
        # ---- (iii) contracts left installed during real counts
        before = rec.total()
        n_counts = 0
        j = 0
        while (j < (40 if ctx.quick else 400)) or (ctx.time_left() and j < 10 ** 6):
            rng = ctx.case_rng(10 ** 6 + j)
            j += 1
            s = gen.pick(rng, dict(G1=2, G3=1, G4=3, G6=1, G10=1), False)
            rule = rng.choice(['wigm', 'wigm', 'meek', 'warren', 'wigm-prf-batch', 'meek-prf', 'scotland', 'mpls', 'cfer-batch'])
            opts = dict(rule=rule)
            if rule == 'wigm':
                opts.update(rng.choice([dict(arithmetic='fixed', precision=rng.randint(0, 9)), dict(arithmetic='integer'), dict(arithmetic='rational')]))
            elif rule in ('meek', 'warren'):
                opts.update(arithmetic='fixed', precision=rng.randint(3, 9))
            run = do_count(gen.render(s), opts, budget=2.0)
            n_counts += 1
            ctx.evaluated()
            if run.error is not None:
                ctx.count('count_raised:' + type(run.error).__name__)
        ctx.count('real_counts_under_contract', n_counts)
        ctx.count('evaluations_inside_real_counts', rec.total() - before)
    finally:
        rm1()
        rm2()
    ctx.count('contract_evaluations', rec.total())
    ctx.count('fixed_evaluations', sum(v for k, v in rec.evals.items() if k.startswith('fixed:')))
    ctx.count('rational_evaluations', sum(v for k, v in rec.evals.items() if k.startswith('rational:')))
    ctx.count('inexact_results', rec.inexact)
    for k, v in rec.evals.items():
        ctx.count('op:' + k, v)
    ctx.evaluated(rec.total())
    # distinct non-trivial: distinct (operation, precision, operands) whose exact result is not representable
    for h in rec.distinct:
        ctx.mark_nontrivial('%x' % (h & 0xffffffffffffffff))
    ctx.sample(dict(kind='grid', precisions=[0, 1, 2, 3, 4], first_operands=mine[:6], second_operands='all of [-60..60] + boundaries',
                    operations=sorted(rec.evals)[:40]))
    for key, msg in rec.fails:
        ctx.violation(key, msg, dict(kind='contract', message=msg))
    if rec.nfails > len(rec.fails):
        ctx.count('contract_failures_total', rec.nfails)


def replay(case):
    "contract failures carry their operands in the message; re-run the grid on this tree"
    rec = Recorder()
    rm1 = install_fixed(rec)
    rm2 = install_rational(rec)
    try:
        Rational.initialize(Options(dict(arithmetic='rational')))
        rng = random.Random(0)
        for p in range(0, 5):
            Fixed.initialize(Options(dict(arithmetic='fixed', precision=p)))
            for a in range(-30, 31):
                for b in range(-30, 31):
                    drive_fixed_pair(a, b)
            for a, b, c in itertools.product(range(-6, 7), repeat=3):
                drive_fixed_triple(a, b, c)
        for _ in range(2000):
            try:
                drive_rational(rng, True)
            except Exception as e:      # pylint: disable=broad-except
                rec.fail('rational:operation-raised:' + type(e).__name__, repr(e)[:300])
    finally:
        rm1()
        rm2()
    return list(dict(rec.fails).items())
