"""
C18 -- the record is a faithful audit trail and all renderings agree with it.
Offline checker over the record + tolerant parsers of report / dump / JSON.
"""
import json, re
from fractions import Fraction
from .. import gen, stream
from ..harness import raw, action_name, Fixed, Guarded, Rational

ID = 'C18'
LEVEL = 'exploration'
RULE_TEXT = ('random valid profiles (all families; a quarter with names that read like the words of the package itself or format directives, half of those with two candidates sharing a name) x all 11 rules x arithmetics incl. display != '
             'precision; after each count the record is checked against the live snapshots (raw values), against the audit-trail rules '
             '(begins with the start of the count, ends with end; each elect/defeat names a candidate whose status - or pending flag - '
             'changes there; every status change is announced; end == E.elected/E.defeated) and the report, dump and json texts are '
             'parsed and compared field by field with str() of the recorded values (report totals recomputed from raw tallies). '
             'non-trivial = count with a transfer-pending candidate and a tie or unpend action; distinct = (structure, configuration) hashes')
ASSUMPTIONS = ['the printed form of a single value is C14\'s business: renderings are compared with str() of the recorded value objects',
               'QPQ restart applied virtually (re-election inside the restart round is invisible in snapshots)',
               'report layout is parsed tolerantly (labels and parenthesised values), not compared byte for byte']
MIN_COUNTERS = {'counts_judged': 200, 'actions_checked': 3000, 'dump_rows_checked': 3000, 'report_blocks_checked': 2000,
                'json_values_compared': 20000, 'announcements_checked': 1000}
WEIGHTS = dict(G1=3, G2=3, G3=2, G4=2, G5=1, G6=3, G7=3, G9=1, G10=2)
ANCHOR_FILES = ['droop/record.py', 'droop/election.py', 'droop/candidate.py', 'droop/candidates.py',
                'droop/rules/electionmethods.py', 'droop/rules/qpq.py', 'droop/rules/mpls.py']

STATUS_RE = re.compile(r'^(Elected|Pending|Hopeful|Defeated):\s+(.*) \(([^()]*)\)$')
TOTAL_RE = re.compile(r'^([A-Za-z][A-Za-z ]*): (\S+)$')
TOTAL_LABELS = {'Quota', 'Threshold', 'Votes', 'Residual', 'Total', 'Surplus', 'Elected votes', 'Pending votes', 'Hopeful votes',
                'Defeated votes', 'Nontransferable votes'}


def jsonify(x):
    "what json.loads(E.json()) must equal: values stringified, keys as strings"
    if isinstance(x, dict):
        return {str(k): jsonify(v) for k, v in x.items()}
    if isinstance(x, (list, tuple)):
        return [jsonify(v) for v in x]
    if isinstance(x, (Fixed, Guarded, Rational)):
        return str(x)
    if isinstance(x, Fraction):
        return str(Rational(x))
    return x


def count_leaves(x):
    if isinstance(x, dict):
        return sum(count_leaves(v) for v in x.values())
    if isinstance(x, list):
        return sum(count_leaves(v) for v in x)
    return 1


def diff_path(a, b, path=''):
    if type(a) != type(b):
        return '%s: %r vs %r' % (path, a, b)
    if isinstance(a, dict):
        for k in sorted(set(a) | set(b)):
            if k not in a or k not in b:
                return '%s/%s: missing on one side' % (path, k)
            d = diff_path(a[k], b[k], path + '/' + k)
            if d:
                return d
        return None
    if isinstance(a, list):
        if len(a) != len(b):
            return '%s: length %d vs %d' % (path, len(a), len(b))
        for i, (x, y) in enumerate(zip(a, b)):
            d = diff_path(x, y, '%s[%d]' % (path, i))
            if d:
                return d
        return None
    return None if a == b else '%s: %r vs %r' % (path, a, b)


def mkval(V, r):
    "a value object of the count's arithmetic from a raw number (for str())"
    if V is Rational:
        return Rational(r)
    return V(r, True)


def check(run):
    out = []
    st = dict(actions=0, announce=0, dump_rows=0, blocks=0, json_vals=0, pending=False, tie_or_unpend=False, zero_groups=0)
    E, cfg = run.E, run.cfg
    V = E.V
    rule = E.rule.name
    method = E.rule.method
    rec = E.record()
    actions = rec['actions']
    wd = set(run.profile.withdrawn)
    name2cids = {}
    for c in E.C:
        name2cids.setdefault(c.name, []).append(c.cid)
    names = {c.cid: c.name for c in E.C}

    def bad(key, msg, idx=None):
        out.append((key, '%s%s under %s %s' % (msg, '' if idx is None else ' at action %d (%s: %s)' % (idx, actions[idx]['tag'], actions[idx]['msg']),
                                               rule, cfg.describe()), dict(action=idx)))

    evs = run.events
    if not run.complete:
        actions = actions[:len(evs)]        # only a prefix of the history is judged
    if len(evs) != len(actions):
        bad('record-length', 'record has %d actions, hook observed %d' % (len(actions), len(evs)))
        return out, st
    # ------------------------------------------------------------------ record vs live snapshots, audit-trail rules
    snaps = [e for e in evs if e.has_snap]
    if snaps:
        first = snaps[0]
        ok_first = first.tag == 'begin' or (rule == 'mpls' and first.tag == 'round' and first.round == 1)
        if not ok_first:
            bad('record-does-not-begin-with-start', 'first non-log action is %s' % first.tag, first.idx)
        if any(c.state not in ('hopeful', 'withdrawn') for c in first.cands.values()):
            bad('decided-before-start', 'a candidate is already decided at the first action', first.idx)
        if run.complete and snaps[-1].tag != 'end':
            bad('record-does-not-end-with-end', 'last action is %s' % snaps[-1].tag, snaps[-1].idx)
        elif run.complete and run.events[-1].tag != 'end':
            bad('record-continues-after-end', 'the record goes on after the end of the count: %s %r' % (run.events[-1].tag, run.events[-1].msg), run.events[-1].idx)
    vstate = None
    prev = None
    defeat_since_round = False
    for ev in evs:
        A = actions[ev.idx]
        st['actions'] += 1
        if A['tag'] != ev.tag or A['msg'] != ev.msg or A['round'] != ev.round:
            bad('action-header-differs', 'record says (%s,%s,%s), observed (%s,%s,%s)' % (A['tag'], A['msg'], A['round'], ev.tag, ev.msg, ev.round), ev.idx)
        if not ev.has_snap:
            if 'cstate' in A:
                bad('log-action-with-cstate', 'log action carries candidate state', ev.idx)
            continue
        cs = A.get('cstate')
        if cs is None or set(cs) != set(ev.cands):
            bad('cstate-candidates', 'cstate lists %s' % (sorted(cs) if cs else None), ev.idx)
            continue
        for cid, c in ev.cands.items():
            d = cs[cid]
            if d['state'] != c.state:
                bad('cstate-state', 'candidate %d recorded %s, live %s' % (cid, d['state'], c.state), ev.idx)
            if c.state == 'withdrawn':
                continue
            if raw(d.get('vote')) != c.vote:
                bad('cstate-vote', 'candidate %d recorded vote %s, live raw %s' % (cid, d.get('vote'), c.vote), ev.idx)
            if raw(d.get('kf')) != c.kf or raw(d.get('quotient')) != c.quotient:
                bad('cstate-kf-quotient', 'candidate %d kf/quotient differ' % cid, ev.idx)
            if d.get('pending') != c.pending:
                bad('cstate-pending', 'candidate %d pending recorded %s live %s' % (cid, d.get('pending'), c.pending), ev.idx)
            if c.pending:
                st['pending'] = True
        if raw(A.get('quota')) != ev.quota:
            bad('action-quota', 'recorded quota %s, live raw %s' % (A.get('quota'), ev.quota), ev.idx)
        live_votes = sum((c.vote for cid, c in ev.cands.items() if cid not in wd), 0)
        if method == 'wigm':
            if raw(A.get('nt_votes')) != ev.exhausted or raw(A.get('surplus')) != ev.surplus:
                bad('action-nt-surplus', 'recorded nt/surplus %s/%s, live %s/%s' % (A.get('nt_votes'), A.get('surplus'), ev.exhausted, ev.surplus), ev.idx)
            if raw(A.get('votes')) != live_votes:
                bad('action-votes', 'recorded votes %s != sum of live tallies %s' % (A.get('votes'), live_votes), ev.idx)
        elif method == 'meek':
            if raw(A.get('residual')) != ev.residual or raw(A.get('surplus')) != ev.surplus:
                bad('action-residual-surplus', 'recorded residual/surplus differ from live', ev.idx)
            if raw(A.get('votes')) != live_votes:
                bad('action-votes', 'recorded votes %s != sum of live tallies %s' % (A.get('votes'), live_votes), ev.idx)
        # ---- announcements
        cur = {cid: c.state for cid, c in ev.cands.items()}
        if ev.tag in ('tie', 'unpend'):
            st['tie_or_unpend'] = True
        if vstate is not None:
            changed = {cid for cid in cur if cur[cid] != vstate[cid]}
            named = None
            if ev.tag in ('elect', 'defeat'):
                st['announce'] += 1
                nm = action_name(ev.msg) if ': ' in ev.msg else None
                want = 'elected' if ev.tag == 'elect' else 'defeated'

                def moves(cid):
                    state_changes = cur[cid] == want and vstate[cid] != want
                    pending_changes = ev.tag == 'elect' and prev is not None and bool(prev.cands[cid].pending) and not ev.cands[cid].pending \
                        and cur[cid] == 'elected'
                    return state_changes or pending_changes
                # candidates are told apart by id; two of them may carry the same printed name (two "Write-in" lines, namesakes):
                # the action then names whichever of them changes at this step
                bearers = name2cids.get(nm, [])
                movers = {cid for cid in bearers if moves(cid) and cur[cid] != vstate[cid]} or {cid for cid in bearers if moves(cid)}
                named = next(iter(movers), bearers[0] if bearers else None)
                if named is None:
                    bad('action-names-nobody', '%s action names %r, not a candidate' % (ev.tag, nm), ev.idx)
                else:
                    if not moves(named):
                        bad('announced-without-change', '%s action names %s whose status does not change (%s -> %s)'
                            % (ev.tag, nm, vstate[named], cur[named]), ev.idx)
            for cid in changed:
                if cid != named:
                    bad('unannounced-status-change', 'candidate %d goes %s -> %s without an action naming it'
                        % (cid, vstate[cid], cur[cid]), ev.idx)
        vstate = dict(cur)
        if ev.tag == 'defeat':
            defeat_since_round = True
        if ev.tag == 'round':
            if rule == 'qpq' and defeat_since_round:
                for cid, s_ in cur.items():
                    if s_ == 'elected':
                        vstate[cid] = 'hopeful'
            defeat_since_round = False
        prev = ev
        if len(out) > 20:
            return out, st
    if run.complete and snaps and E.elected is not None:
        last = snaps[-1]
        if {c.cid for c in E.elected} != {cid for cid, c in last.cands.items() if c.state == 'elected'} or \
           {c.cid for c in E.defeated} != {cid for cid, c in last.cands.items() if c.state == 'defeated'}:
            bad('end-differs-from-election-object', 'end action and E.elected/E.defeated disagree', last.idx)

    if run.report is None:
        return out, st

    # ------------------------------------------------------------------ json
    try:
        js = json.loads(run.json)
    except ValueError as e:
        bad('json-invalid', 'json() is not valid JSON: %s' % e)
        js = None
    if js is not None:
        want = jsonify(rec)
        st['json_vals'] += count_leaves(want)
        d = diff_path(want, js)
        if d:
            bad('json-differs-from-record', 'json differs from the record at %s' % d)

    # ------------------------------------------------------------------ dump
    rows = run.dump.split('\n')
    if rows and rows[-1] == '':
        rows.pop()
    rows = [r.split('\t') for r in rows]
    if len(rows) != len(actions) + 1:
        bad('dump-row-count', 'dump has %d rows for %d actions (+ header)' % (len(rows), len(actions)))
    else:
        hdr = rows[0]
        col = {h: i for i, h in enumerate(hdr)}
        # every candidate that holds a status (hopeful / elected / defeated) at any step of the record must have its dump columns:
        # the report and the JSON show it, so the dump must too
        with_status = {cid for A in actions if A.get('cstate') for cid, cst in A['cstate'].items() if cst.get('state') != 'withdrawn'}
        ecids = [c.cid for c in sorted(E.C, key=lambda c: c.order) if c.cid not in wd or c.cid in with_status]
        for A, row in zip(actions, rows[1:]):
            st['dump_rows'] += 1
            idx = actions.index(A) if False else None
            if A['tag'] in ('round', 'log', 'iterate'):
                if row != [str(A['round']), A['tag'], A['msg']]:
                    bad('dump-message-row', 'dump row %r for %s action %r' % (row, A['tag'], A['msg']))
                continue
            if len(row) != len(hdr):
                bad('dump-column-count', 'dump row has %d columns, header %d (%s: %s)' % (len(row), len(hdr), A['tag'], A['msg']))
                continue
            exp = {'R': 'X' if A['tag'] == 'end' else str(A['round']), 'Action': A['tag'], 'Quota': str(A['quota'])}
            if method == 'meek':
                exp.update({'Votes': str(A['votes']), 'Surplus': str(A['surplus']), 'Residual': str(A['residual'])})
            elif method == 'wigm':
                exp['Non-Transferable'] = str(A['nt_votes'])
            for cid in ecids:
                cst = A['cstate'][cid]
                code = {'hopeful': 'H', 'defeated': 'D', 'withdrawn': 'W'}.get(cst['state'])
                if cst['state'] == 'elected':
                    code = 'e' if (method == 'wigm' and cst.get('pending')) else 'E'
                exp['%s.name' % cid] = names[cid]
                exp['%s.state' % cid] = code
                if method == 'qpq':
                    exp['%s.quotient' % cid] = str(cst.get('quotient'))
                else:
                    exp['%s.vote' % cid] = str(cst.get('vote'))
                    if method == 'meek':
                        exp['%s.kf' % cid] = str(cst.get('kf'))
            for k, v in exp.items():
                if k not in col:
                    bad('dump-missing-column', 'dump header lacks %s' % k)
                    break
                if row[col[k]] != v:
                    bad('dump-field-differs', 'dump %s = %r, record says %r (%s: %s)' % (k, row[col[k]], v, A['tag'], A['msg']))
                    break
            if len(out) > 20:
                return out, st

    # ------------------------------------------------------------------ report
    lines = run.report.split('\n')
    # header: up to the first blank line after the 'Election:' line
    try:
        e0 = next(i for i, l in enumerate(lines) if l.startswith('Election: '))
        h_end = next(i for i in range(e0 + 2, len(lines)) if lines[i] == '')
    except StopIteration:
        bad('report-header', 'report header not found')
        return out, st
    header = {}
    for l in lines[e0 + 1:h_end]:
        m = re.match(r'^\t([^:]+): (.*)$', l)
        if m:
            header[m.group(1)] = m.group(2)
    qn = E.rule.quota_name
    for k, v in (('Seats', str(rec['seats'])), ('Ballots', str(rec['nballots'])), (qn, str(rec['quota'])),
                 ('Rule', rec['rule_info']), ('Arithmetic', rec['arithmetic_info'])):
        if header.get(k) != v:
            bad('report-header-field', 'report header %s = %r, record says %r' % (k, header.get(k), v))
    body = lines[h_end + 1:]
    if rec.get('arithmetic_report'):
        n = rec['arithmetic_report'].count('\n')
        body = body[n:]
    # sequence alignment of body lines with the actions
    ai = 0
    blocks = []         # (action index, [lines])
    cur_block = None
    for l in body:
        if l == '':
            continue
        s_ = l.strip()
        if l.startswith('Round ') and l.endswith(':'):
            while ai < len(actions) and actions[ai]['tag'] == 'log':
                bad('report-missing-log-line', 'log action %r not in report' % actions[ai]['msg'])
                ai += 1
            if ai >= len(actions) or actions[ai]['tag'] != 'round' or l != 'Round %d:' % actions[ai]['round']:
                bad('report-round-line', 'report line %r does not match the next action' % l)
                return out, st
            ai += 1
            cur_block = None
        elif l.startswith('Action: '):
            while ai < len(actions) and actions[ai]['tag'] == 'log':
                bad('report-missing-log-line', 'log action %r not in report' % actions[ai]['msg'])
                ai += 1
            if ai >= len(actions) or actions[ai]['tag'] in ('log', 'round') or l != 'Action: ' + actions[ai]['msg']:
                bad('report-action-line', 'report line %r does not match the next action %r' % (l, actions[ai]['msg'] if ai < len(actions) else None))
                return out, st
            cur_block = (ai, [])
            blocks.append(cur_block)
            ai += 1
        elif l.startswith('\t'):
            m = STATUS_RE.match(s_)
            t = TOTAL_RE.match(s_)
            if cur_block is not None and (m or (t and t.group(1) in TOTAL_LABELS)):
                cur_block[1].append(s_)
            else:
                if ai < len(actions) and actions[ai]['tag'] == 'log' and l == '\t' + actions[ai]['msg']:
                    ai += 1
                    cur_block = None
                elif l.startswith('\t** Count terminated'):
                    pass
                else:
                    bad('report-unexpected-line', 'report line %r matches neither a log action nor a field of the current action' % l)
                    return out, st
        else:
            bad('report-unexpected-line', 'report line %r' % l)
            return out, st
    if ai != len(actions):
        bad('report-missing-actions', 'report covers %d of %d actions' % (ai, len(actions)))
    nb_raw = cfg.of_int(E.nBallots)
    for ai_, blines in blocks:
        A = actions[ai_]
        st['blocks'] += 1
        cst = A['cstate']
        status = [(m.group(1), m.group(2), m.group(3)) for m in (STATUS_RE.match(x) for x in blines) if m]
        totals = {}
        for x in blines:
            t = TOTAL_RE.match(x)
            if t and not STATUS_RE.match(x):
                totals[t.group(1)] = t.group(2)
        need_status = A['tag'] in ('begin', 'count', 'elect', 'defeat', 'transfer', 'end') and not (method == 'qpq' and A['tag'] == 'tie')
        if status or need_status:
            got = set()
            for kind, nm, v in status:
                for one in nm.split(', '):
                    got.add((kind, one, v))
                if ', ' in nm:
                    st['zero_groups'] += 1
            want = set()
            for cid, d in cst.items():
                if d['state'] == 'withdrawn':
                    continue
                v = str(d['quotient']) if method == 'qpq' else str(d['vote'])
                if d['state'] == 'elected':
                    want.add(('Pending' if (d.get('pending') and method != 'qpq') else 'Elected', names[cid], v))
                elif d['state'] == 'hopeful':
                    want.add(('Hopeful', names[cid], v))
                elif d['state'] == 'defeated':
                    want.add(('Defeated', names[cid], v))
            if got != want:
                # the report groups defeated candidates whose tally the arithmetic itself considers equal to zero under one
                # "(0)" entry; under guarded arithmetic that includes tallies within the tolerance of zero
                zero = str(E.V0)
                for cid, d in cst.items():
                    if d['state'] == 'defeated' and method != 'qpq' and cfg.cmp(raw(d['vote']), 0) == 0:
                        entry = ('Defeated', names[cid], str(d['vote']))
                        if entry in want and entry not in got and ('Defeated', names[cid], zero) in got:
                            want.discard(entry)
                            want.add(('Defeated', names[cid], zero))
            if got != want:
                bad('report-status-lines', 'report shows %s, record says %s' % (sorted(got ^ want)[:4], 'the opposite side of these'), ai_)
        # totals
        ev = evs[ai_]
        exp = {}
        if method == 'qpq':
            if A['tag'] in ('begin', 'tie', 'elect', 'defeat', 'transfer', 'end'):
                exp['Quota'] = str(A['quota'])
        elif method == 'meek':
            tv = sum((c.vote for cid, c in ev.cands.items() if cid not in wd), 0)
            exp = {qn: str(A['quota']), 'Votes': str(mkval(V, tv)), 'Residual': str(A['residual']),
                   'Total': str(mkval(V, tv + ev.residual)), 'Surplus': str(A['surplus'])}
        else:
            el = sum((c.vote for c in ev.cands.values() if c.state == 'elected' and not c.pending), 0)
            pe = sum((c.vote for c in ev.cands.values() if c.state == 'elected' and c.pending), 0)
            ho = sum((c.vote for c in ev.cands.values() if c.state == 'hopeful'), 0)
            de = sum((c.vote for c in ev.cands.values() if c.state == 'defeated'), 0)
            tot = el + pe + ho + de + ev.exhausted
            exp = {'Elected votes': str(mkval(V, el)), 'Hopeful votes': str(mkval(V, ho)),
                   'Nontransferable votes': str(A['nt_votes']), 'Residual': str(mkval(V, nb_raw - tot)),
                   'Total': str(mkval(V, nb_raw)), 'Surplus': str(A['surplus'])}
            if pe:
                exp['Pending votes'] = str(mkval(V, pe))
            if de:
                exp['Defeated votes'] = str(mkval(V, de))
        for k, v in exp.items():
            if totals.get(k) != v:
                bad('report-total-differs', 'report %s = %r, expected %r from the record' % (k, totals.get(k), v), ai_)
                break
        if len(out) > 20:
            break
    return out, st


def main_driver(ctx, case):
    "the command-line driver renders the same record: an uninterrupted run carries no interruption mark and ends with the end of the count"
    import os, io, tempfile, contextlib, importlib.util
    from ..harness import REPO
    spec = importlib.util.spec_from_file_location('Droop_cli_c18', os.path.join(REPO, 'Droop.py'))
    cli = importlib.util.module_from_spec(spec)
    spec.loader.exec_module(cli)
    out = os.path.join(os.path.dirname(os.path.dirname(os.path.dirname(os.path.abspath(__file__)))), 'out')
    fd, path = tempfile.mkstemp(suffix='.blt', dir=out)
    try:
        with os.fdopen(fd, 'w') as f:
            f.write(case.blt)
        opts = dict(case.opts, path=path, dump=True, json=True)
        try:
            with contextlib.redirect_stdout(io.StringIO()):
                text = cli.main(opts)
        except Exception as e:      # pylint: disable=broad-except
            ctx.count('main_driver_raised:' + type(e).__name__)
            return
    finally:
        os.unlink(path)
    ctx.count('main_driver_runs')
    if 'count interrupted' in text or 'terminated prematurely' in text:
        ctx.violation('main-marks-uninterrupted-count', 'Droop.main marks an uninterrupted count as interrupted', case.replay_case())
    elif case.run.report is not None and case.run.report not in text:
        ctx.violation('main-report-differs', 'the report printed by Droop.main differs from Election.report() of the same count', case.replay_case())


def odd_names(rng, s):
    "names are data: some read like the package's own words or format directives, and two candidates may share one"
    k = rng.random()
    if k < 0.12:
        s['names'] = gen.hostile_names(rng, s['nc'])
    elif k < 0.24:
        s['names'] = gen.hostile_names(rng, s['nc'], repeats=True)


def shard(ctx):
    n_min = 60 if ctx.quick else 400
    for i, rng in ctx.cases(n_min, 10 ** 9):
        case = stream.make_case(ctx, rng, WEIGHTS, render=True, mutate_s=odd_names)
        if i % 50 == 7 and case.run.complete and case.run.other is None:
            main_driver(ctx, case)
        if not stream.usable(ctx, case):
            continue
        vs, st = check(case.run)
        ctx.count('actions_checked', st['actions'])
        ctx.count('announcements_checked', st['announce'])
        ctx.count('dump_rows_checked', st['dump_rows'])
        ctx.count('report_blocks_checked', st['blocks'])
        ctx.count('json_values_compared', st['json_vals'])
        ctx.count('zero_vote_defeated_groups', st['zero_groups'])
        if st['pending'] and st['tie_or_unpend']:
            ctx.mark_nontrivial(case.hash())
        ctx.sample(stream.sample_of(case))
        for key, msg, wit in vs:
            ctx.violation(key, msg, case.replay_case(), wit)


def replay(case):
    run = stream.replay_run(case, render=True)
    if run.timed_out or run.E is None:
        return []
    return [(k, m) for k, m, _ in check(run)[0]]
