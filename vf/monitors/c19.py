"""
C19 -- an interrupted count can always be reported, as a prefix of the full count.
Fault injection at every execution point: a sys.monitoring LINE callback raises KeyboardInterrupt at the k-th executed
line of package code while Election.count() is on the stack, for every k of each swept count.
"""
import os, sys, io, json, time, contextlib, importlib.util, tempfile
from .. import gen, configs
from ..harness import Election, ElectionProfile, REPO, raw

ID = 'C19'
LEVEL = 'fault_enumeration'
EXHAUSTIVE = True
LINE_COVERAGE = False
SHARDS = 16
QUICK_S = 25
RULE_TEXT = ('for each swept (profile, rule, options) the uninterrupted count is traced once (N line events in files of the droop package while '
             'Election.count() is on the stack); then for EVERY k in 1..N a fresh Election is counted and KeyboardInterrupt is raised from the LINE '
             'callback at the k-th event (complete enumeration of the interruption points of that count, the k partitioned over the shards; a count too long for the tier - the cost of the enumeration is quadratic in its length - is swept at evenly spaced points instead, and both kinds are counted). After '
             'each interruption report(True), dump(True) and json(True) are called as Droop.main does: none may raise, the interruption marker must '
             'appear exactly once, and the recorded actions minus the marker must be value-equal (tag, message, round, every raw tally / quota / total) '
             'to a prefix of the uninterrupted record. A sample of points is driven through Droop.main itself with a temporary ballot file and every '
             'report/dump/json option combination. non-trivial = an interruption that lands inside rule code after the first action; distinct = '
             '(count, k)')
ASSUMPTIONS = ['an interruption point = a LINE event (statement start) in a file under droop/; interruptions inside C code between two line events are '
               'observationally the same as at the next line event for pure-Python code',
               'sys.monitoring raises from the callback exactly as a signal handler raising KeyboardInterrupt would at that line']
MIN_COUNTERS = {'injections': 3000, 'sweeps_started': 8, 'renderings_checked': 9000, 'main_driver_runs': 20, 'injections_before_first_action': 50}
ANCHOR_FILES = ['droop/election.py', 'droop/record.py', 'Droop.py']
MARK = '** count interrupted; this round is incomplete **'
LAST_MARK = [None]      # the marker as the package words it, learnt from the record (the checks do not depend on the wording)
TOOL = sys.monitoring.DEBUGGER_ID
PREFIX = os.path.join(os.path.realpath(REPO), 'droop') + os.sep


class State:
    active = False
    n = 0
    target = None
    lines = None


def on_line(code, line):
    if not code.co_filename.startswith(PREFIX):
        return sys.monitoring.DISABLE
    if not State.active:
        return None
    State.n += 1
    if State.lines is not None:
        State.lines.add((code.co_filename[len(PREFIX):], line))
    if State.n == State.target:
        State.active = False
        raise KeyboardInterrupt()
    return None


_orig_count = Election.count


def _count(self):
    State.active = True
    try:
        return _orig_count(self)
    finally:
        State.active = False


def install():
    mon = sys.monitoring
    mon.use_tool_id(TOOL, 'verif-c19')
    mon.register_callback(TOOL, mon.events.LINE, on_line)
    mon.set_events(TOOL, mon.events.LINE)
    Election.count = _count


def uninstall():
    mon = sys.monitoring
    mon.set_events(TOOL, 0)
    mon.register_callback(TOOL, mon.events.LINE, None)
    mon.free_tool_id(TOOL)
    Election.count = _orig_count


def action_value(A):
    "value of one recorded action (raw numbers), for prefix comparison"
    out = [A.get('tag'), A.get('msg'), A.get('round')]
    if 'cstate' in A:
        out.append(tuple(sorted((cid, d.get('state'), d.get('code'), raw(d.get('vote')), raw(d.get('kf')), raw(d.get('quotient')), d.get('pending'))
                                for cid, d in A['cstate'].items())))
    for k in ('quota', 'votes', 'nt_votes', 'surplus', 'residual'):
        out.append((k, raw(A[k])) if k in A else (k, 'absent'))
    return tuple(out)


def run_once(profile, opts, target):
    "count with an interruption at the target-th line event (None: uninterrupted); returns (E, interrupted, n_events)"
    State.n = 0
    State.target = target
    with contextlib.redirect_stdout(io.StringIO()):
        E = Election(profile, dict(opts))
        try:
            E.count()
            return E, False, State.n
        except KeyboardInterrupt:
            return E, True, State.n


def check_interrupted(ctx, E, full_values, k, case):
    "renderers after an interruption at event k"
    outs = {}
    order = [('report', 'dump', 'json'), ('json', 'report', 'dump'), ('dump', 'json', 'report'), ('json', 'dump', 'report')][k % 4]
    for name in order:      # whichever rendering is asked for first logs the marker; the others must not repeat it
        try:
            with contextlib.redirect_stdout(io.StringIO()):
                outs[name] = getattr(E, name)(True)
        except Exception as e:      # pylint: disable=broad-except
            ctx.violation('renderer-raises:%s:%s' % (name, type(e).__name__),
                          '%s(True) raised %r after an interruption at line event %d' % (name, e, k), dict(case, k=k))
            return False
        ctx.count('renderings_checked')
    acts = E.record()['actions']
    # the marker is found by what it is, not by its wording: the log actions the interrupted record holds beyond the actions of
    # the uninterrupted count, saying that the count was interrupted; there must be exactly one, and it must come last
    n_common = 0
    while n_common < len(acts) and n_common < len(full_values) and action_value(acts[n_common]) == full_values[n_common]:
        n_common += 1
    marks = [i for i in range(n_common, len(acts)) if acts[i]['tag'] == 'log' and 'interrupt' in acts[i]['msg'].lower()]
    if len(marks) != 1:
        ctx.violation('interruption-marker-count', 'the record holds %d interruption markers after report+dump+json at event %d' % (len(marks), k), dict(case, k=k))
        return False
    mark_text = acts[marks[0]]['msg']
    LAST_MARK[0] = mark_text
    for name, text in outs.items():
        shown = text.count(json.dumps(mark_text)[1:-1] if name == 'json' else mark_text)
        if shown != 1:
            ctx.violation('rendering-not-marked:%s' % name, '%s(True) shows the interruption marker %d times (event %d)' % (name, shown, k), dict(case, k=k))
            return False
    try:
        json.loads(outs['json'])
    except ValueError as e:
        ctx.violation('interrupted-json-invalid', 'json(True) is not valid JSON after an interruption at event %d: %s' % (k, e), dict(case, k=k))
        return False
    vals = [action_value(a) for i, a in enumerate(acts) if i != marks[0]]
    if marks[0] != len(acts) - 1:
        ctx.violation('marker-not-last', 'actions were recorded after the interruption marker (event %d)' % k, dict(case, k=k))
        return False
    if vals != full_values[:len(vals)]:
        j = next((i for i, (x, y) in enumerate(zip(vals, full_values)) if x != y), min(len(vals), len(full_values)))
        ctx.violation('not-a-prefix', 'interrupted at event %d: action %d of the interrupted record %r differs from the uninterrupted one %r'
                      % (k, j, vals[j][:3] if j < len(vals) else None, full_values[j][:3] if j < len(full_values) else None), dict(case, k=k))
        return False
    return True


def sweeps(ctx):
    "the (structure, options) pairs swept by this run (same list in every shard)"
    rng = ctx.case_rng(-7)
    out = []
    rules = list(configs.ALL_RULES)
    per_rule = 3 if ctx.quick else 12
    # round-robin over the rules so that the first 11 sweeps (always completed) cover every rule name
    for j in range(per_rule):
        for ri, rule in enumerate(rules):
            fam = dict(G8=1) if (rule in ('meek', 'warren') and j % 4 == 3) else dict(G1=2, G2=1, G3=1, G4=2, G7=1, G10=1)
            s = gen.pick(rng, fam, False)
            s['lines'] = s['lines'][:7 if ctx.quick else 10]
            gen.make_valid(s, rng)
            if (j + ri) % 3 == 0:
                # names that read like the package's own words or like format directives: the marker, the banner and the prefix
                # relation are judged on the structure of the record, so a name can neither supply nor suppress them
                s['names'] = gen.hostile_names(rng, s['nc'])
            opts = dict(rule=rule)
            if rule == 'wigm':
                opts.update(rng.choice([dict(), dict(arithmetic='fixed', precision=5), dict(arithmetic='rational'), dict(defeat_batch='zero')]))
            elif rule in ('meek', 'warren'):
                opts.update(rng.choice([dict(), dict(arithmetic='fixed', precision=6, omega=3), dict(defeat_batch='none')]))
            out.append((s, opts))
    return out


def load_droop_main():
    spec = importlib.util.spec_from_file_location('Droop_cli', os.path.join(REPO, 'Droop.py'))
    mod = importlib.util.module_from_spec(spec)
    spec.loader.exec_module(mod)
    return mod


def shard(ctx):
    install()
    private_dir = tempfile.mkdtemp(prefix='c19_', dir=os.path.join(os.path.dirname(os.path.dirname(os.path.dirname(os.path.abspath(__file__)))), 'out'))
    try:
        cli = load_droop_main()
        sw = sweeps(ctx)
        for si, (s, opts) in enumerate(sw):
            blt = gen.render(s)
            profile = ElectionProfile(data=blt)
            State.lines = set()
            t_full = time.process_time()
            E0, intr, N = run_once(profile, opts, None)
            t_full = time.process_time() - t_full
            lines_seen = State.lines
            State.lines = None
            if intr:
                continue
            ctx.count('sweeps_started')
            full_values = [action_value(a) for a in E0.record()['actions']]
            n_first = None
            case = dict(blt=blt, options=opts)
            mine = [k for k in range(1, N + 1) if k % ctx.nshards == ctx.shard]
            if not ctx.time_left() and si >= (11 if ctx.quick else 33):
                ctx.count('sweeps_skipped_for_time')
                continue
            # the enumeration re-runs the count up to each point: its cost grows with the square of the count's length. A count too
            # long for the tier is swept at evenly spaced points instead of all of them (counted; the short counts stay complete)
            est = len(mine) * t_full * 0.5
            allowance = 15.0 if ctx.quick else 150.0
            if est > allowance:
                stride = int(est / allowance) + 1
                ctx.count('sweeps_sampled_at_evenly_spaced_points')
                ctx.count('interruption_points_left_out_of_long_counts', len(mine) - len(mine[::stride]))
                mine = mine[::stride]
            else:
                ctx.count('sweeps_enumerated_completely')
            hard_stop = ctx.deadline + (90.0 if ctx.quick else 300.0)
            for k in mine:
                if time.monotonic() > hard_stop:
                    ctx.count('sweeps_cut_short_for_time')
                    break
                E, interrupted, n = run_once(profile, opts, k)
                ctx.evaluated()
                if not interrupted:
                    ctx.violation('interrupt-swallowed', 'KeyboardInterrupt raised at line event %d of %d did not reach the caller of count()' % (k, N), dict(case, k=k))
                    continue
                ctx.count('injections')
                nact = len(E.record()['actions'])
                if not any(a['tag'] != 'log' for a in E.record()['actions']):
                    ctx.count('injections_before_first_action')
                else:
                    ctx.mark_nontrivial('%d:%d' % (si, k))
                check_interrupted(ctx, E, full_values, k, case)
            ctx.count('line_events_in_swept_counts', N if ctx.shard == 0 else 0)
            if ctx.shard == 0:
                ctx.count('distinct_lines_interrupted', len(lines_seen))
                ctx.sample(dict(blt=blt, options=opts, line_events=N, distinct_lines=len(lines_seen), actions=len(full_values)), keep=3)
            # ---- a sample of points through Droop.main itself
            if si % 3 == ctx.shard % 3:
                fd, path = tempfile.mkstemp(suffix='.blt', dir=os.path.join(os.path.dirname(os.path.dirname(os.path.dirname(os.path.abspath(__file__)))), 'out'))
                try:
                    with os.fdopen(fd, 'w') as f:
                        f.write(blt)
                    rng = ctx.case_rng(1000 + si)
                    for ci, combo in enumerate(((True, False, False), (True, True, True), (False, True, False), (False, False, True), (False, True, True),
                                                (True, True, False))):
                        k = rng.randint(1, N)
                        o = dict(opts, path=path, report=combo[0], dump=combo[1], json=combo[2])
                        if ci in (1, 5):
                            o['profile'] = 1        # the documented profile=<reps> option runs the count under cProfile
                            ctx.count('main_driver_runs_under_profile_option')
                        State.n = 0
                        State.target = k
                        try:
                            cwd = os.getcwd()
                            os.chdir(private_dir)      # profile=<reps> writes profile.out into the working directory: one directory per shard
                            try:
                                with contextlib.redirect_stdout(io.StringIO()):
                                    text = cli.main(o)
                            finally:
                                os.chdir(cwd)
                        except Exception as e:      # pylint: disable=broad-except
                            ctx.violation('main-raises:%s' % type(e).__name__, 'Droop.main raised %r when interrupted at line event %d with report/dump/json=%s' % (e, k, combo),
                                          dict(case, k=k, combo=combo))
                            continue
                        finally:
                            State.target = None
                        ctx.count('main_driver_runs')
                        ctx.evaluated()
                        want = sum(1 for c in combo if c)
                        mt = LAST_MARK[0] or MARK
                        esc = json.dumps(mt)[1:-1]
                        got = text.count(mt) + (text.count(esc) if esc != mt else 0)
                        if got != want:
                            ctx.violation('main-output-not-marked', 'Droop.main interrupted at event %d with report/dump/json=%s: marker appears %d times in the output, expected %d'
                                          % (k, combo, got, want), dict(case, k=k, combo=combo))
                finally:
                    os.unlink(path)
    finally:
        uninstall()
        import shutil
        shutil.rmtree(private_dir, ignore_errors=True)


def replay(case):
    from ..engine import Ctx
    ctx = Ctx('C19', 'quick', 0, 0, 1, 600)
    install()
    try:
        profile = ElectionProfile(data=case['blt'])
        E0, intr, N = run_once(profile, case['options'], None)
        full_values = [action_value(a) for a in E0.record()['actions']]
        ks = [case['k']] if case.get('k') else range(1, N + 1)
        for k in ks:
            E, interrupted, n = run_once(profile, case['options'], k)
            if interrupted:
                check_interrupted(ctx, E, full_values, k, dict(blt=case['blt'], options=case['options']))
    finally:
        uninstall()
    return [(v['key'], v['msg']) for v in ctx.violations]
