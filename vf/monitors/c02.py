"""
C02 -- votes are conserved at every step: none created, none lost beyond rounding.
Hook invariant on raw values at every recorded action.
"""
from fractions import Fraction
from .. import stream

ID = 'C02'
LEVEL = 'exploration'
RULE_TEXT = ('random valid profiles (G4 chains and G8 equal-rank ballots weighted up; equal ranks only for meek/warren) x '
             'all 11 rule names x all arithmetics incl. integer and rational; at every recorded non-log action the monitor '
             'sums raw tallies + non-transferable (Gregory family) or + residual (Meek family) and compares with the '
             'ballot total under the property\'s own allowance (2 ulp x ballots x surplus transfers so far; exact under '
             'rational; exact for the Meek family after any distribution); QPQ: ballot weights x multipliers sum to the '
             'number of candidates elected by quotient at every quiescent snapshot. non-trivial = Gregory count with a '
             'surplus transfer that re-weights >= 2 ballot lines and ends with non-transferable votes > 0, or a Meek-family '
             'count with an elected keep factor < 1 and residual > 0, or a QPQ count electing >= 2 by quotient')
ASSUMPTIONS = ['ballots with equal rankings are generated only for meek/warren (the other rules ignore them by design)',
               'QPQ ballot weights are compared at quiescent snapshots only: the elect action is logged before the '
               'weights of the contributing ballots are updated (transient mid-update state)',
               'surplus transfers are counted from state diffs (an elected candidate\'s tally decreasing)']
MIN_COUNTERS = {'counts_judged': 200, 'snapshots_checked': 2000, 'gregory_snapshots': 500, 'meek_snapshots': 300,
                'qpq_snapshots': 100, 'rational_exact_checks': 20}
WEIGHTS = dict(G1=3, G2=2, G3=2, G4=5, G4b=1, G5=1, G6=2, G7=2, G9=1, G10=1)
ANCHOR_FILES = ['droop/rules/wigm.py', 'droop/rules/wigm_prf.py', 'droop/rules/cfer.py', 'droop/rules/scotland.py',
                'droop/rules/mpls.py', 'droop/rules/meek.py', 'droop/rules/meek_prf.py', 'droop/rules/qpq.py',
                'droop/rules/electionmethods.py', 'droop/record.py', 'droop/election.py']


def check(run, s=None):
    out = []
    st = dict(snaps=0, gregory=0, meek=0, qpq=0, rational=0, surplus_transfers=0, maxshort=Fraction(0))
    E, cfg = run.E, run.cfg
    method = E.rule.method
    rule = E.rule.name
    nb = cfg.of_int(E.nBallots)
    wd = set(run.profile.withdrawn)
    has_eq = bool(E.ballotsEqual)
    transfers = 0
    prev = None
    distributed = False        # meek family: has any distribution happened yet
    defeat_since_dist = None   # meek-prf: tally held by the candidate excluded since the last distribution
    by_quotient = 0
    after_round = False
    for ev in run.snaps:
        st['snaps'] += 1
        tallies = {cid: c.vote for cid, c in ev.cands.items() if cid not in wd}
        for cid, v in tallies.items():
            if v is not None and v < 0:
                out.append(('negative-tally', 'candidate %s tally %s < 0 at action %d (%s)' % (cid, v, ev.idx, ev.tag), dict(action=ev.idx)))
        if method == 'wigm':
            st['gregory'] += 1
            if ev.exhausted is None:
                continue
            if ev.exhausted < 0:
                out.append(('negative-nt', 'non-transferable %s < 0 at action %d' % (ev.exhausted, ev.idx), dict(action=ev.idx)))
            if prev is not None and any(c.state == 'elected' and prev.cands[cid].state == 'elected' and c.vote < prev.cands[cid].vote
                                        for cid, c in ev.cands.items() if cid not in wd):
                transfers += 1
            elif prev is not None and rule == 'mpls' and ev.tag == 'transfer' and prev.tag == 'elect':
                transfers += 1      # mpls elects and transfers in one step (tally falls from above threshold)
            T = sum(tallies.values()) + ev.exhausted
            short = nb - T
            if short < 0:
                out.append(('votes-created', 'tallies + non-transferable exceed ballots by %s raw units at action %d (%s: %s) under %s %s'
                            % (-short, ev.idx, ev.tag, ev.msg, rule, cfg.describe()), dict(action=ev.idx)))
            elif cfg.kind == 'rational':
                st['rational'] += 1
                if short != 0:
                    out.append(('rational-not-exact', 'rational arithmetic: total differs from ballots by %s at action %d' % (short, ev.idx), dict(action=ev.idx)))
            else:
                allow = 2 * E.nBallots * transfers      # raw units (1 raw unit = 1 ulp)
                if short > allow:
                    out.append(('votes-lost', 'shortfall %s ulp > allowance %s (2 x %d ballots x %d surplus transfers) at action %d (%s: %s) under %s %s'
                                % (short, allow, E.nBallots, transfers, ev.idx, ev.tag, ev.msg, rule, cfg.describe()), dict(action=ev.idx)))
                if cfg.frac(short) > st['maxshort']:
                    st['maxshort'] = cfg.frac(short)
        elif method == 'meek':
            st['meek'] += 1
            res = ev.residual
            if res is None:
                continue
            if res < 0:
                out.append(('negative-residual', 'residual %s < 0 at action %d' % (res, ev.idx), dict(action=ev.idx)))
            T = sum(tallies.values()) + res
            short = nb - T
            if ev.tag in ('iterate', 'elect', 'end', 'tie', 'defeat'):
                distributed = True
            if rule == 'meek-prf':
                # a distribution happens inside every round but is only visible at the first
                # tie/elect/defeat action after the 'round' action; 'end' recomputes votes and residual
                if ev.tag == 'round':
                    after_round = True
                elif ev.tag == 'end' or (after_round and ev.tag in ('tie', 'elect', 'defeat')):
                    defeat_since_dist = None
                    after_round = False
            if short < 0:
                out.append(('votes-created', 'votes + residual exceed ballots by %s raw units at action %d (%s: %s) under %s %s'
                            % (-short, ev.idx, ev.tag, ev.msg, rule, cfg.describe()), dict(action=ev.idx)))
            elif short != 0:
                if not distributed:
                    # begin / first round: first preferences only; equal-rank ballots credit (1//n)*m
                    allow = 2 * E.nBallots if has_eq else 0
                    if short > allow:
                        out.append(('votes-lost', 'shortfall %s > %s before the first distribution at action %d' % (short, allow, ev.idx), dict(action=ev.idx)))
                elif rule == 'meek-prf' and defeat_since_dist is not None and short == defeat_since_dist:
                    out.append(('meekprf-stale-snapshot-after-exclusion',
                                'meek-prf %s snapshot after an exclusion: votes + residual short of the ballots by exactly the '
                                'excluded candidate\'s tally (%s raw) at action %d' % (ev.tag, short, ev.idx), dict(action=ev.idx)))
                else:
                    out.append(('votes-lost', 'votes + residual short of ballots by %s raw units after a distribution at action %d (%s: %s) under %s %s'
                                % (short, ev.idx, ev.tag, ev.msg, rule, cfg.describe()), dict(action=ev.idx)))
            if cfg.kind == 'rational':
                st['rational'] += 1
            # meek-prf bookkeeping: an exclusion zeroes the tally without redistributing until the next iteration
            if rule == 'meek-prf' and ev.tag == 'defeat':
                who = [cid for cid, c in ev.cands.items() if c.state == 'defeated' and prev is not None and prev.cands[cid].state != 'defeated']
                held = sum(ev.cands[cid].vote for cid in who)
                defeat_since_dist = (defeat_since_dist or 0) + held
        else:   # qpq
            st['qpq'] += 1
            for cid, c in ev.cands.items():
                if c.quotient is not None and c.quotient < 0:
                    out.append(('negative-quotient', 'candidate %s quotient %s < 0' % (cid, c.quotient), dict(action=ev.idx)))
            if ev.tx is not None and (ev.tx < 0 or ev.va < 0):
                out.append(('negative-qpq-total', 'tx %s va %s at action %d' % (ev.tx, ev.va, ev.idx), dict(action=ev.idx)))
            if ev.tag == 'elect' and 'remaining' not in ev.msg:
                by_quotient += 1
                prev = ev
                continue        # transient: weights of the contributing ballots are updated after this log
            if ev.tag == 'round' and prev is not None and any(e.tag == 'defeat' for e in _since_last_round(run, ev)):
                by_quotient_after = 0
            else:
                by_quotient_after = None
            if ev.ballots is not None:
                tot = sum(w * m for (idx, w, r), m in zip(ev.ballots, run.mults))     # raw*raw = scale^2
                have = Fraction(tot, cfg.scale)                                      # raw units of "candidates"
                want = by_quotient * cfg.scale
                if any(w < 0 for (idx, w, r) in ev.ballots):
                    out.append(('negative-weight', 'negative ballot weight at action %d' % ev.idx, dict(action=ev.idx)))
                if abs(have - want) >= cfg.geps:
                    out.append(('qpq-fractions-sum', 'ballot fractions sum to %s, %d candidates elected by quotient, at action %d (%s: %s)'
                                % (float(have / cfg.scale), by_quotient, ev.idx, ev.tag, ev.msg), dict(action=ev.idx)))
            if by_quotient_after is not None:
                by_quotient = 0     # restart: the next snapshot has every ballot back at weight 0
        if ev.tag == 'round' and method == 'qpq':
            pass
        prev = ev
        if len(out) > 20:
            break
    st['surplus_transfers'] = transfers
    return out, st


def _since_last_round(run, ev):
    "snapshots between the previous 'round' action and ev"
    out = []
    for e in run.snaps:
        if e.idx >= ev.idx:
            break
        if e.tag == 'round':
            out = []
        else:
            out.append(e)
    return out


def nontrivial(run):
    E = run.E
    snaps = run.snaps
    if E.rule.method == 'wigm':
        if not snaps or not snaps[-1].exhausted:
            return False
        for a, b in zip(snaps, snaps[1:]):
            if a.ballots is None or b.ballots is None:
                continue
            changed = sum(1 for x, y in zip(a.ballots, b.ballots) if x[1] != y[1])
            if changed >= 2:
                return True
        return False
    if E.rule.method == 'meek':
        last = snaps[-1]
        one = run.cfg.of_int(1)
        return bool(last.residual) and any(c.state == 'elected' and c.kf is not None and c.kf < one for c in last.cands.values())
    return sum(1 for e in snaps if e.tag == 'elect' and 'remaining' not in e.msg) >= 2


def shard(ctx):
    n_min = 60 if ctx.quick else 400
    for i, rng in ctx.cases(n_min, 10 ** 9):
        case = stream.make_case(ctx, rng, WEIGHTS, snap_ballots=True, meek_rational=True)
        if not stream.usable(ctx, case):
            continue
        vs, st = check(case.run, case.s)
        ctx.count('snapshots_checked', st['snaps'])
        ctx.count('gregory_snapshots', st['gregory'])
        ctx.count('meek_snapshots', st['meek'])
        ctx.count('qpq_snapshots', st['qpq'])
        ctx.count('rational_exact_checks', st['rational'])
        ctx.count('surplus_transfers_seen', st['surplus_transfers'])
        if st['maxshort'] > 0:
            ctx.count('gregory_counts_with_rounding_loss')
        if nontrivial(case.run):
            ctx.mark_nontrivial(case.hash())
        ctx.sample(stream.sample_of(case))
        for key, msg, wit in vs:
            ctx.violation(key, msg, case.replay_case(), wit)


def replay(case):
    run = stream.replay_run(case, snap_ballots=True)
    if run.E is None or not run.snaps:
        return []
    run.events = run.events[:stream.MAX_PARTIAL_EVENTS] if not run.complete else run.events
    return [(k, m) for k, m, _ in check(run)[0]]
