"""
C03 -- statutory rules carry out their published procedure, stage by stage.
History + executable model: the recorded history of every count is normalised into steps by state diffs and
compared, to the last digit, with the history the rule specification (vf/models/specs.py) prescribes.
"""
import itertools
from .. import stream, gen, configs
from ..harness import do_count, tie_names, action_name
from ..models import specs

ID = 'C03'
LEVEL = 'exploration'
RULE_TEXT = ('strict-ranking profiles (G1-G7, G9, G10; withdrawn candidates, mpls write-ins) x the eight statutory rule names. Each recorded history is '
             'normalised by state diffs into steps (begin / count / elect{set} / defeat{set} / surplus(c) / xfer{set} / tie(set->choice)) with the raw tallies '
             'after each step, and compared with the steps produced by an executable specification written from the rule text in scaled-integer arithmetic: '
             'step kinds, who, round, every tally, the non-transferable total (Gregory rules), quota and winners must be equal; recorded tie-breaks must be ones '
             'the text permits. The strict text is tried first; documented outcome-neutral departures of the code are named switches, and a history accepted '
             'only with switches is reported as the corresponding known finding(s); a history no switch subset explains is a violation. Also wigm with '
             'arithmetic=fixed precision=4 must reproduce wigm-prf (actions, raw snapshots, dump). non-trivial = history with >= 3 transfer steps')
ASSUMPTIONS = ['trusted base: the transcription of six procedures in vf/models/specs.py (about 100 lines each) and the adopted readings documented there',
               'QPQ: a count in which two hopeful quotients differ by less than twice the guarded tolerance is not evaluated']
MIN_COUNTERS = {'histories_compared': 300, 'steps_compared': 3000, 'wigm_p4_pairs': 20}
WEIGHTS = dict(G1=3, G2=3, G3=2, G4=3, G4b=1, G5=1, G6=2, G7=2, G9=1, G10=3)
ANCHOR_FILES = ['droop/rules/wigm_prf.py', 'droop/rules/meek_prf.py', 'droop/rules/scotland.py', 'droop/rules/mpls.py', 'droop/rules/cfer.py',
                'droop/rules/qpq.py', 'droop/rules/wigm.py']

SWITCHES = {
    'wigm-prf': ['wigmprf-d3'], 'wigm-prf-batch': ['wigmprf-d3'],
    'scotland': ['scot-final-transfer', 'scot-zero-surplus'],
    'mpls': ['mpls-clause-c-finish', 'mpls-tv-order'],
    'cfer': ['cfer-threshold', 'cfer-one-truncation'], 'cfer-batch': ['cfer-threshold', 'cfer-one-truncation'],
    'meek-prf': [], 'qpq': [],
}


class NotEvaluated(Exception):
    pass


def normalise(run):
    "code history -> (steps, recorded ties); steps as in specs (6th field: dict(quota, fresh))"
    E = run.E
    rule = E.rule.name
    wd = set(run.profile.withdrawn)
    name2cid = {c.name: c.cid for c in E.C}
    snaps = run.snaps
    steps = []
    ties = []
    last = None
    vstate = None
    defeat_since_round = False
    prf = rule == 'meek-prf'
    qpq = rule == 'qpq'

    def tallies(e):
        if qpq:
            return {cid: (c.quotient if c.quotient is not None else 0) for cid, c in e.cands.items() if cid not in wd}
        return {cid: c.vote for cid, c in e.cands.items() if cid not in wd}

    def extra(e, fresh=True):
        d = dict(quota=e.quota, fresh=fresh)
        if prf:
            d['kf'] = {cid: c.kf for cid, c in e.cands.items() if cid not in wd}
        return d

    i = 0
    n = len(snaps)
    while i < n:
        e = snaps[i]
        if vstate is None:
            vstate = {cid: c.state for cid, c in e.cands.items()}
        if e.tag == 'round':
            if qpq and defeat_since_round:
                for cid, c in e.cands.items():
                    if c.state == 'elected':
                        vstate[cid] = 'hopeful'
            defeat_since_round = False
            i += 1
            continue
        if e.tag in ('begin', 'count'):
            steps.append((e.round, e.tag, None, tallies(e), e.exhausted, extra(e)))
            last = None
            i += 1
            continue
        if e.tag in ('end', 'iterate'):
            i += 1
            continue
        if e.tag == 'tie':
            names, ch = tie_names(e.msg)
            tied = frozenset(name2cid[x] for x in names)
            c = name2cid[ch]
            ties.append((tied, c))
            steps.append((e.round, 'tie', (tied, c), tallies(e), e.exhausted, extra(e, not (prf and defeat_since_round))))
            i += 1
            continue
        if e.tag in ('elect', 'defeat'):
            want = 'elected' if e.tag == 'elect' else 'defeated'
            grp = set()
            j = i
            fresh = not (prf and defeat_since_round)
            while j < n and snaps[j].tag == e.tag and snaps[j].round == e.round:
                ej = snaps[j]
                ch = [cid for cid, c in ej.cands.items() if c.state == want and vstate[cid] != want]
                if not ch and e.tag == 'elect':
                    # no status change: CfER's "Elect pending" (pending flag cleared) is not an election step of the text;
                    # under QPQ a re-election right after a restart is invisible in snapshots and is taken from the record
                    if qpq and ': ' in ej.msg and name2cid.get(action_name(ej.msg)) is not None:
                        ch = [name2cid[action_name(ej.msg)]]
                for cid in ch:
                    vstate[cid] = want
                grp |= set(ch)
                j += 1
            if grp:
                steps.append((e.round, e.tag, frozenset(grp), tallies(snaps[j - 1]), snaps[j - 1].exhausted, extra(snaps[j - 1], fresh)))
                last = (e.tag, frozenset(grp))
            if e.tag == 'defeat':
                defeat_since_round = True
            i = j
            continue
        if e.tag == 'unpend':
            prev = snaps[i - 1]
            who = [cid for cid, c in e.cands.items() if prev.cands[cid].pending and not c.pending]
            last = ('unpend', who[0] if who else None)
            i += 1
            continue
        if e.tag == 'transfer':
            if last and last[0] == 'unpend':
                steps.append((e.round, 'surplus', last[1], tallies(e), e.exhausted, extra(e)))
            elif last and last[0] == 'elect' and len(last[1]) == 1:
                steps.append((e.round, 'surplus', next(iter(last[1])), tallies(e), e.exhausted, extra(e)))
            elif last and last[0] == 'defeat':
                steps.append((e.round, 'xfer', last[1], tallies(e), e.exhausted, extra(e)))
            else:
                steps.append((e.round, 'transfer?', None, tallies(e), e.exhausted, extra(e)))
            if not (last and last[0] == 'defeat' and rule == 'wigm'):
                last = None
            i += 1
            continue
        steps.append((e.round, e.tag, None, tallies(e), e.exhausted, extra(e)))
        i += 1
    return steps, ties


def six(s):
    return s if len(s) == 6 else s + (dict(fresh=True),)


def merge(steps, rule):
    out = []
    for s in map(six, steps):
        if out and s[1] in ('elect', 'defeat') and out[-1][1] == s[1] and out[-1][0] == s[0]:
            out[-1] = (s[0], s[1], out[-1][2] | s[2], s[3], s[4], s[5])
        elif out and rule.startswith('cfer') and s[1] == 'surplus' and out[-1][1] in ('surplus', 'surplus-set') and out[-1][0] == s[0]:
            prev = out[-1][2] if out[-1][1] == 'surplus-set' else frozenset([out[-1][2]])
            out[-1] = (s[0], 'surplus-set', prev | frozenset([s[2]]), s[3], s[4], s[5])
        else:
            out.append(s)
    return out


def diff(model_steps, code_steps, rule):
    "None if equal; else (index of first differing step, description)"
    ms, cs = merge(model_steps, rule), merge(code_steps, rule)
    for k, (a, b) in enumerate(zip(ms, cs)):
        if a[1] != b[1]:
            return k, 'step %d: the text prescribes %s %s, the record has %s %s' % (k, a[1], _who(a[2]), b[1], _who(b[2]))
        if a[2] != b[2]:
            return k, 'step %d (%s): the text names %s, the record %s' % (k, a[1], _who(a[2]), _who(b[2]))
        if a[0] != b[0]:
            return k, 'step %d (%s %s): round %s in the text, %s in the record' % (k, a[1], _who(a[2]), a[0], b[0])
        fresh = a[5].get('fresh', True) and b[5].get('fresh', True)
        if fresh:
            if a[3] != b[3]:
                bad = sorted(c for c in a[3] if a[3][c] != b[3].get(c))
                return k, 'step %d (%s %s): tallies differ for %s: text %s, record %s' % (
                    k, a[1], _who(a[2]), bad[:3], [a[3][c] for c in bad[:3]], [b[3].get(c) for c in bad[:3]])
            if a[4] is not None and a[4] != b[4]:
                return k, 'step %d (%s %s): non-transferable %s in the text, %s in the record' % (k, a[1], _who(a[2]), a[4], b[4])
            if 'quota' in a[5] and a[5]['quota'] != b[5].get('quota'):
                return k, 'step %d (%s %s): quota %s in the text, %s in the record' % (k, a[1], _who(a[2]), a[5]['quota'], b[5].get('quota'))
            if 'kf' in a[5] and 'kf' in b[5] and a[5]['kf'] != b[5]['kf'] and a[1] != 'defeat':
                return k, 'step %d (%s %s): keep factors differ' % (k, a[1], _who(a[2]))
    if len(ms) != len(cs):
        k = min(len(ms), len(cs))
        extra = cs[k] if len(cs) > k else ms[k]
        return k, 'the %s has an extra step %d: %s %s' % ('record' if len(cs) > k else 'text', k, extra[1], _who(extra[2]))
    return None


def _who(w):
    if isinstance(w, frozenset):
        return sorted(w)
    if isinstance(w, tuple):
        return '%s->%s' % (sorted(w[0]), w[1])
    return w


def run_model(rule, s, ties, sw):
    tie = {c: k + 1 for k, c in enumerate(s['tie'] or range(1, s['nc'] + 1))}
    T = specs.Ties(ties)
    a = (s['nc'], s['ns'], s['lines'], tie, set(s['withdrawn']), T)
    if rule in ('wigm-prf', 'wigm-prf-batch'):
        r = specs.wigm_prf(*a, batch=rule.endswith('batch'), sw=sw)
    elif rule == 'scotland':
        r = specs.scotland(*a, sw=sw)
    elif rule == 'mpls':
        r = specs.mpls(*a, undeclared=set(s['undeclared']), sw=sw)
    elif rule in ('cfer', 'cfer-batch'):
        r = specs.cfer(*a, batch=rule.endswith('batch'), sw=sw)
    elif rule == 'meek-prf':
        r = specs.meek_prf(*a, sw=sw)
    else:
        r = specs.qpq(*a, sw=sw)
    if not T.exhausted():
        raise specs.Mismatch('the record logs %d tie-breaks, the text needs only %d' % (len(T.recorded), T.i))
    return r


def qpq_ambiguous(run):
    g = run.cfg.geps
    for e in run.snaps:
        qs = sorted(c.quotient for c in e.cands.values() if c.state == 'hopeful' and c.quotient is not None)
        for x, y in zip(qs, qs[1:]):
            if 0 < y - x < 2 * g:
                return True
    return False


def judge(run, s):
    """
    returns (verdict, detail): ('strict', None) | ('switches', [names]) | ('violation', (key, msg)) | ('not-evaluated', why)
    """
    rule = run.E.rule.name
    if rule == 'qpq' and qpq_ambiguous(run):
        return 'not-evaluated', 'quotients within twice the tolerance'
    code_steps, ties = normalise(run)
    winners = sorted(c.cid for c in run.E.elected)
    names = SWITCHES[rule]
    best = None
    for r in range(len(names) + 1):
        for sub in itertools.combinations(names, r):
            try:
                quota, hist, w = run_model(rule, s, ties, set(sub))
            except specs.Mismatch as m:
                d = (10 ** 6 - 1, str(m))
                if best is None:
                    best = (sub, (-1, str(m)))
                continue
            d = diff(hist, code_steps, rule)
            if d is None:
                if sorted(w) != winners:
                    d = (10 ** 6, 'winners %s in the text, %s in the record' % (sorted(w), winners))
                elif rule not in ('meek-prf', 'qpq') and quota != run.snaps[0].quota:
                    d = (0, 'quota %s in the text, %s in the record' % (quota, run.snaps[0].quota))
            if d is None:
                return ('strict', None) if not sub else ('switches', list(sub))
            if best is None or d[0] > best[1][0]:
                best = (sub, d)
    sub, d = best
    kind = d[1].split(':')[0].split('(')[-1].split(')')[0] if '(' in d[1] else 'structure'
    return 'violation', ('history-not-prescribed:%s' % rule, 'no reading of the %s text explains the record; closest (switches %s): %s'
                         % (rule, list(sub), d[1]))


def shard(ctx):
    n_min = 40 if ctx.quick else 400
    for i, rng in ctx.cases(n_min, 10 ** 9):
        if i % 8 == 7:
            wigm_pair(ctx, rng)
            continue
        case = stream.make_case(ctx, rng, WEIGHTS, rules=configs.STATUTORY, allow_eq=False)
        if not stream.usable(ctx, case, partial_ok=False) or not case.run.complete:
            continue
        run = case.run
        rule = run.E.rule.name
        verdict, detail = judge(run, case.s)
        if verdict == 'not-evaluated':
            ctx.count('not_evaluated:' + detail.replace(' ', '-'))
            continue
        ctx.count('histories_compared')
        ctx.count('histories:' + rule)
        steps, ties = normalise(run)
        ctx.count('steps_compared', len(steps))
        for st in steps:
            ctx.count('step:%s:%s' % (rule, st[1]))
        ctx.count('ties_checked', len(ties))
        if verdict == 'strict':
            ctx.count('accepted_by_strict_text:' + rule)
        elif verdict == 'switches':
            for sw in detail:
                ctx.violation('text-deviation:' + sw, 'the %s record matches the rule text only with the documented departure %s' % (rule, sw), case.replay_case())
        else:
            ctx.violation(detail[0], detail[1], case.replay_case())
        if sum(1 for st in steps if st[1] in ('surplus', 'xfer')) >= 3:
            ctx.mark_nontrivial(case.hash())
        ctx.sample(dict(blt=case.blt[:300], rule=rule, verdict=verdict, switches=detail if verdict == 'switches' else [],
                        steps=['r%s %s %s' % (st[0], st[1], _who(st[2])) for st in steps][:14]), keep=2)


def wigm_pair(ctx, rng):
    "the parametric wigm rule configured with the PRF reference parameters yields the PRF reference history"
    k = rng.random()
    s = None
    if k < 0.25:
        s = gen.g3b_exact_hit(rng, 4, 'eps')        # a transfer landing exactly on / beside the quota of the reference arithmetic
        ctx.count('wigm_p4_pairs_on_an_exact_hit')
    elif k < 0.4:
        e = stream.catalogue_pick(rng, dict(rule=rng.choice(['wigm-prf', 'wigm'])))
        if e is not None:
            s = e[0]
            ctx.count('wigm_p4_pairs_from_the_boundary_catalogue')
    if s is None:
        s = gen.pick(rng, WEIGHTS, False)
    blt = gen.render(s)
    r1 = do_count(blt, dict(rule='wigm', arithmetic='fixed', precision=4), budget=stream.budget_for(ctx), render=True)
    r2 = do_count(blt, dict(rule='wigm-prf'), budget=stream.budget_for(ctx), render=True)
    ctx.evaluated()
    if not (r1.complete and r2.complete):
        ctx.count('wigm_pair_not_usable')
        return
    ctx.count('wigm_p4_pairs')
    a = [e.astuple() for e in r1.events]
    b = [e.astuple() for e in r2.events]
    case = dict(blt=blt, options=dict(rule='wigm-prf'), kind='wigm-p4')
    if a != b:
        k = next((j for j, (x, y) in enumerate(zip(a, b)) if x != y), min(len(a), len(b)))
        ctx.violation('wigm-p4-differs-from-wigm-prf', 'wigm arithmetic=fixed precision=4 and wigm-prf differ at action %d: %r vs %r'
                      % (k, a[k][:3] if k < len(a) else None, b[k][:3] if k < len(b) else None), case)
    elif r1.dump != r2.dump:
        ctx.violation('wigm-p4-dump-differs-from-wigm-prf', 'dumps differ', case)


def struct_from_profile(p):
    "rebuild the structure a profile denotes (for replay)"
    nc = p.nCand
    order = sorted(p.tieOrder, key=lambda c: p.tieOrder[c])
    return dict(nc=nc, ns=p.nSeats, tie=order, withdrawn=sorted(p.withdrawn), undeclared=sorted(p.undeclared),
                lines=[(bl.multiplier, list(bl.ranking)) for bl in p.ballotLines])


def replay(case):
    if case.get('kind') == 'wigm-p4':
        r1 = do_count(case['blt'], dict(rule='wigm', arithmetic='fixed', precision=4), budget=60, render=True)
        r2 = do_count(case['blt'], dict(rule='wigm-prf'), budget=60, render=True)
        if r1.complete and r2.complete and ([e.astuple() for e in r1.events] != [e.astuple() for e in r2.events] or r1.dump != r2.dump):
            return [('wigm-p4-differs-from-wigm-prf', 'records differ')]
        return []
    run = stream.replay_run(case)
    if not run.complete:
        return []
    # the structure is recovered from the parsed profile; withdrawn candidates are already removed from its ballots,
    # which the models do again harmlessly
    s = struct_from_profile(run.profile)
    verdict, detail = judge(run, s)
    if verdict == 'violation':
        return [detail]
    if verdict == 'switches':
        return [('text-deviation:' + sw, 'accepted only with switch %s' % sw) for sw in detail]
    return []
