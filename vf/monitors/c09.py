"""
C09 -- candidate status only moves forward; seats never over/under-committed; rounds monotone.
Transition-relation checker over consecutive snapshots of the recorded history.
"""
from .. import stream

ID = 'C09'
LEVEL = 'exploration'
RULE_TEXT = ('random valid profiles (families G1-G10) x all 11 rule names x arithmetic/option matrix; every pair of '
             'consecutive recorded snapshots of every count is checked against the allowed status transitions, the seat '
             'bounds and round monotonicity; non-trivial = history with both an election by quota and an exclusion (for '
             'QPQ additionally a restart that un-elects at least one candidate is counted separately); distinct = '
             'distinct (election structure, configuration) hashes')
ASSUMPTIONS = ['QPQ re-election inside the restart round is invisible in snapshots, so the checker applies the restart '
               'virtually (all elected -> hopeful) at each round action that follows a defeat (DESIGN 2.1)']
MIN_COUNTERS = {'counts_judged': 200, 'transitions_checked': 2000, 'status_changes_seen': 500}
WEIGHTS = dict(G1=3, G2=3, G3=2, G4=2, G5=1, G6=3, G7=3, G9=1, G10=3)
ANCHOR_FILES = ['droop/candidate.py', 'droop/candidates.py', 'droop/election.py', 'droop/record.py']


def electable(run):
    mpls = run.E.rule.name == 'mpls'
    return {c.cid for c in run.E.C if c.cid not in run.profile.withdrawn and not (mpls and c.isUndeclared)}


def check(run):
    out = []
    stats = dict(transitions=0, changes=0, qpq_unelected=0, pending_seen=0)
    E = run.E
    qpq = E.rule.name == 'qpq'
    seats = E.nSeats
    elct = electable(run)
    want = min(seats, len(elct))
    wd = set(run.profile.withdrawn)
    # round numbers never decrease (all events, logs included)
    last_round = None
    for ev in run.events:
        if last_round is not None and ev.round < last_round:
            out.append(('round-decreased', 'round %d after round %d at action %d' % (ev.round, last_round, ev.idx), dict(action=ev.idx)))
            break
        last_round = ev.round
    prev = None            # virtual status map cid -> state
    prev_pending = {}
    cleared = set()        # candidates whose pending flag has been cleared
    defeat_since_round = False
    for ev in run.snaps:
        cur = {cid: c.state for cid, c in ev.cands.items()}
        if prev is not None:
            stats['transitions'] += 1
            for cid, st in cur.items():
                p = prev[cid]
                if cid in wd:
                    if st != 'withdrawn' or p != 'withdrawn':
                        out.append(('withdrawn-changed', 'withdrawn candidate %s: %s -> %s at action %d' % (cid, p, st, ev.idx), dict(action=ev.idx)))
                    continue
                if st == p:
                    continue
                stats['changes'] += 1
                if (p, st) in (('hopeful', 'elected'), ('hopeful', 'defeated')):
                    continue
                out.append(('illegal-transition:%s->%s' % (p, st),
                            'candidate %s goes %s -> %s at action %d (%s: %s) under %s'
                            % (cid, p, st, ev.idx, ev.tag, ev.msg, E.rule.name), dict(action=ev.idx)))
        else:
            for cid, st in cur.items():
                if cid in wd and st != 'withdrawn':
                    out.append(('withdrawn-changed', 'withdrawn candidate %s starts as %s' % (cid, st), None))
        # pending flag
        for cid, c in ev.cands.items():
            if c.pending:
                stats['pending_seen'] += 1
                if c.state != 'elected':
                    out.append(('pending-not-elected', 'candidate %s pending while %s at action %d' % (cid, c.state, ev.idx), dict(action=ev.idx)))
                if cid in cleared:
                    out.append(('pending-reset', 'candidate %s pending again after being cleared, action %d' % (cid, ev.idx), dict(action=ev.idx)))
            elif prev_pending.get(cid):
                cleared.add(cid)
            prev_pending[cid] = bool(c.pending)
        # seat bounds
        n_el = sum(1 for cid, st in cur.items() if st == 'elected')
        n_hop = sum(1 for cid, st in cur.items() if st == 'hopeful' and cid in elct)
        if n_el > seats:
            key = 'too-many-elected'
            cfg = run.cfg
            if E.rule.name in ('meek', 'warren') and cfg.kind == 'guarded' and cfg.guard > 0 and ev.quota is not None and \
                    any(c.state == 'elected' and c.kf is not None and c.kf < cfg.of_int(1) and ev.quota - c.vote >= cfg.geps for c in ev.cands.values()):
                key = 'meek-guarded-truncated-kf-overelects'        # same mechanism as the C01 known finding
            out.append((key, '%d elected for %d seats at action %d' % (n_el, seats, ev.idx), dict(action=ev.idx)))
        n_el_electable = sum(1 for cid, st in cur.items() if st == 'elected' and cid in elct)
        if n_el_electable + n_hop < want:
            out.append(('seats-unfillable', 'elected %d + continuing electable %d < %d fillable seats at action %d (%s)'
                        % (n_el_electable, n_hop, want, ev.idx, ev.msg), dict(action=ev.idx)))
        # virtual restart for QPQ
        vcur = dict(cur)
        if ev.tag == 'defeat':
            defeat_since_round = True
        if ev.tag == 'round':
            if qpq and defeat_since_round:
                for cid, st in cur.items():
                    if st == 'elected':
                        vcur[cid] = 'hopeful'
                        stats['qpq_unelected'] += 1
            defeat_since_round = False
        prev = vcur
        if len(out) > 20:
            break
    return out, stats


def nontrivial(run):
    excl = any(e.tag == 'defeat' and 'remaining' not in e.msg.lower() for e in run.events)
    byq = any(e.tag == 'elect' and 'remaining' not in e.msg.lower() and 'Elect all' not in e.msg for e in run.events)
    return excl and byq


def fixed_meek(rng, opts):
    p = rng.randint(3, 9)
    return dict(rule=opts['rule'], arithmetic=rng.choice(['fixed', 'fixed', 'guarded']), precision=p, omega=rng.randint(max(1, p - 2), p),
                **(dict(defeat_batch='none') if rng.random() < 0.3 else {}))


def shard(ctx):
    n_min = 60 if ctx.quick else 400
    for i, rng in ctx.cases(n_min, 10 ** 9):
        if i % 6 == 2:
            # runners-up that converge on the quota itself, level with one another, under fixed-point Meek / Warren: a keep factor or
            # quota off by one unit in the last place lifts all of them over the quota in the same iteration
            case = stream.make_case(ctx, rng, dict(G14=1), rules=['meek', 'warren'], allow_eq=False, tweak=fixed_meek)
            ctx.count('symmetric_split_cases')
        else:
            case = stream.make_case(ctx, rng, WEIGHTS)
        if not stream.usable(ctx, case):
            continue
        vs, st = check(case.run)
        ctx.count('transitions_checked', st['transitions'])
        ctx.count('status_changes_seen', st['changes'])
        ctx.count('pending_flags_seen', st['pending_seen'])
        if st['qpq_unelected']:
            ctx.count('qpq_restarts_unelecting', 1)
            ctx.count('qpq_unelected_candidates', st['qpq_unelected'])
        if nontrivial(case.run):
            ctx.mark_nontrivial(case.hash())
        ctx.sample(stream.sample_of(case))
        for key, msg, wit in vs:
            ctx.violation(key, msg, case.replay_case(), wit)


def replay(case):
    run = stream.replay_run(case)
    if run.E is None or not run.snaps:
        return []
    run.events = run.events[:stream.MAX_PARTIAL_EVENTS] if not run.complete else run.events
    return [(k, m) for k, m, _ in check(run)[0]]
