"""
C10 -- the record depends on the ballots cast, not on how the file presents them.
Relational monitor over two real executions: canonical rendering vs a presentation variant
(lines permuted, multipliers split / identical lines merged, random layout, comments, nicknames).
"""
import json
from .. import stream, gen, blt, configs
from ..harness import do_count

ID = 'C10'
LEVEL = 'exploration'
RULE_TEXT = ('profiles from G1-G4, G6, G10 and G8 (equal ranks, meek/warren) x all rules x arithmetics with fractional weights. Each structure is counted '
             'from its canonical text and from a variant in which ballot lines are permuted, multipliers are split (m -> m1+m2+..) and identical lines merged, '
             'tokens are laid out randomly with tabs, blank lines, # and nested /* */ comments, and candidates are referenced by a [nick] list. The two '
             'executions must agree on every action (tag, message, round, raw tallies, quota, NT / residual / surplus), on the dump and on the report; JSON '
             'after removing cdict[*].nick. non-trivial = variant uses >= 2 transformation kinds and the count re-weights ballots (fractional transfer) with '
             'some multiplier > 1; distinct = (structure, configuration, variant text) hashes')
ASSUMPTIONS = ['the two presentations denote the same multiset of ballots by construction (the variant generator only permutes, splits, merges and re-lays-out)']
MIN_COUNTERS = {'pairs_compared': 300, 'pairs_with_split_or_merge': 100, 'pairs_with_nicknames': 50, 'pairs_with_comments': 50}
WEIGHTS = dict(G1=4, G2=2, G3=2, G4=4, G4b=2, G6=1, G10=1)
ANCHOR_FILES = ['droop/profile.py', 'droop/election.py']


def variant(s, rng):
    "same election, different presentation; returns (structure2, kinds)"
    kinds = set()
    s2 = dict(s)
    lines = list(s['lines'])
    if rng.random() < 0.8:
        new = []
        for m, r in lines:
            if m > 1 and rng.random() < 0.6:
                parts = []
                left = m
                while left > 0:
                    k = rng.randint(1, left)
                    parts.append(k)
                    left -= k
                if len(parts) > 1:
                    kinds.add('split')
                new += [(k, r) for k in parts]
            else:
                new.append((m, r))
        lines = new
    if rng.random() < 0.5:
        merged = {}
        order = []
        for m, r in lines:
            key = repr(r)
            if key in merged:
                merged[key] = (merged[key][0] + m, r)
                kinds.add('merge')
            else:
                merged[key] = (m, r)
                order.append(key)
        lines = [merged[k] for k in order]
    if rng.random() < 0.8 and len(lines) > 1:
        before = list(lines)
        rng.shuffle(lines)
        if lines != before:
            kinds.add('permute')
    s2['lines'] = lines
    if rng.random() < 0.5 and s['nc'] <= 16:
        from .c15 import NICKS
        s2['nick'] = rng.sample(NICKS, s['nc'])
        s2['use_nick'] = True
        kinds.add('nicknames')
    return s2, kinds


def strip_json(js):
    d = json.loads(js)
    for c in d.get('cdict', {}).values():
        c.pop('nick', None)
    return d


def report_diff_only_stats(r1, r2):
    a, b = r1.split('\n'), r2.split('\n')
    if len(a) != len(b):
        return False
    for x, y in zip(a, b):
        if x != y and not (x.strip().startswith(('maxDiff:', 'minDiff:')) and y.strip().startswith(('maxDiff:', 'minDiff:'))):
            return False
    return True


def compare(r1, r2, kinds, cfgkind):
    "list of (key, msg)"
    out = []
    a = [e.astuple() for e in r1.events]
    b = [e.astuple() for e in r2.events]
    if a != b:
        k = next((i for i, (x, y) in enumerate(zip(a, b)) if x != y), min(len(a), len(b)))
        x = a[k] if k < len(a) else None
        y = b[k] if k < len(b) else None
        what = 'tallies' if x and y and x[:3] == y[:3] else 'action'
        out.append(('record-depends-on-presentation:' + what,
                    'action %d differs between the canonical text and the variant (%s): %r vs %r' % (k, sorted(kinds), x[:3] if x else None, y[:3] if y else None)))
        return out
    if r1.dump != r2.dump:
        out.append(('dump-depends-on-presentation', 'dumps differ (%s)' % sorted(kinds)))
    if r1.report != r2.report:
        if cfgkind == 'guarded' and report_diff_only_stats(r1.report, r2.report) and (kinds & {'split', 'merge'}):
            out.append(('guarded-stats-depend-on-multipliers',
                        'reports differ only in the maxDiff/minDiff statistics lines after a multiplier split/merge'))
        else:
            out.append(('report-depends-on-presentation', 'reports differ (%s)' % sorted(kinds)))
    j1, j2 = strip_json(r1.json), strip_json(r2.json)
    if j1 != j2:
        ar1, ar2 = j1.pop('arithmetic_report', None), j2.pop('arithmetic_report', None)
        if j1 == j2 and cfgkind == 'guarded' and (kinds & {'split', 'merge'}):
            if not any(k == 'guarded-stats-depend-on-multipliers' for k, _ in out):
                out.append(('guarded-stats-depend-on-multipliers', 'json differs only in arithmetic_report after a multiplier split/merge'))
        else:
            out.append(('json-depends-on-presentation', 'json differs beyond cdict.nick (%s)' % sorted(kinds)))
    return out


def shard(ctx):
    n_min = 40 if ctx.quick else 400
    for i, rng in ctx.cases(n_min, 10 ** 9):
        opts = configs.random_config(rng)
        fam = dict(G8=1) if (opts['rule'] in ('meek', 'warren') and rng.random() < 0.35) else WEIGHTS
        s = gen.pick(rng, fam, (not ctx.quick) and rng.random() < 0.2)
        if opts.get('arithmetic') == 'rational' and opts['rule'] in ('meek', 'warren'):
            opts['arithmetic'] = 'fixed'
            opts['precision'] = rng.randint(3, 9)
            opts.pop('omega', None)
        if rng.random() < 0.4:
            s['tie'] = None        # default tie order (by candidate id): must not depend on the order of the ballot lines
        s2, kinds = variant(s, rng)
        t1 = gen.render(s)
        feats = set()
        t2 = blt.render(s2, rng, feats, comments=rng.random() < 0.7)
        if feats & {'block-comment', 'hash-comment'}:
            kinds.add('comments')
        kinds.add('layout')
        b = stream.budget_for(ctx)
        r1 = do_count(t1, opts, budget=b, render=True)
        ctx.evaluated()
        if r1.timed_out or r1.error is not None:
            ctx.count('first_run_not_usable')
            continue
        r2 = do_count(t2, opts, budget=b * 2, render=True)
        case = dict(blt=t1, blt2=t2, options=opts, kinds=sorted(kinds))
        if r2.timed_out:
            ctx.count('not_explored:budget')
            continue
        if r2.error is not None:
            ctx.violation('variant-raises:%s' % type(r2.error).__name__,
                          'the variant presentation (%s) makes the %s phase raise %r' % (sorted(kinds), r2.phase, r2.error), case)
            continue
        ctx.count('pairs_compared')
        ctx.count('rule:' + opts['rule'])
        for k in kinds:
            ctx.count('kind:' + k)
        if kinds & {'split', 'merge'}:
            ctx.count('pairs_with_split_or_merge')
        if 'nicknames' in kinds:
            ctx.count('pairs_with_nicknames')
        if 'comments' in kinds:
            ctx.count('pairs_with_comments')
        if s.get('eq'):
            ctx.count('pairs_with_equal_ranks')
        for key, msg in compare(r1, r2, kinds, r1.cfg.kind):
            ctx.violation(key, msg + ' under ' + configs.describe(opts), case)
        frac = any(e.tag in ('transfer', 'iterate') for e in r1.events)
        if len(kinds - {'layout'}) >= 2 and frac and any(m > 1 for m, _ in s['lines']):
            ctx.mark_nontrivial(gen.canon_hash(s, configs.describe(opts) + t2))
        ctx.sample(dict(canonical=t1[:300], variant=t2[:500], options=opts, kinds=sorted(kinds)), keep=2)


def replay(case):
    r1 = do_count(case['blt'], case['options'], budget=60, render=True)
    r2 = do_count(case['blt2'], case['options'], budget=60, render=True)
    if r1.error is not None or r1.timed_out or r2.timed_out:
        return []
    if r2.error is not None:
        return [('variant-raises:%s' % type(r2.error).__name__, repr(r2.error))]
    return compare(r1, r2, set(case.get('kinds', [])), r1.cfg.kind)
