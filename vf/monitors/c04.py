"""
C04 -- the quota is the prescribed one, and whoever reaches it is elected.
Offline checker over the traced history (raw values).
"""
from fractions import Fraction
from .. import stream

ID = 'C04'
LEVEL = 'exploration'
RULE_TEXT = ('profiles weighted towards the quota boundary (G3: ballot totals divisible by seats+1, first-preference blocs at '
             'quota-1/quota/quota+1, plus chains whose transfers land on the quota) x all 11 rules x all arithmetics; the '
             'recorded quota of every snapshot is recomputed from the ballots (or, Meek family, from the recorded votes; QPQ '
             'from the live ballots) with the formula the property prescribes; at the pre-state of every exclusion no hopeful '
             'candidate (incl. the excluded one) may hold the quota; any hopeful seen holding the quota must end elected. '
             'non-trivial = some hopeful or elected tally within 1 ulp of the quota at some snapshot')
ASSUMPTIONS = ['guarded arithmetic with guard digits is "exact" in the property\'s sense: quota = n/(s+1) truncated at p+g digits, strict >',
               'pre-state of an exclusion = the defeat snapshot itself (tallies not yet touched) for Gregory rules, QPQ and meek-prf; '
               'the preceding iterate snapshot for meek/warren',
               'mpls is exempt from "no exclusion while a hopeful holds the quota" (its ordinance defeats certain losers first) and its '
               'undeclared write-ins from everything; QPQ elects one candidate per stage so only the exclusion clauses apply to it']
MIN_COUNTERS = {'counts_judged': 200, 'quota_formula_checks': 2000, 'exclusion_prestates_checked': 500, 'near_quota_snapshots': 50}
WEIGHTS = dict(G1=2, G2=1, G3=8, G4=3, G5=1, G6=2, G7=1, G9=1, G10=1)
ANCHOR_FILES = ['droop/rules/wigm.py', 'droop/rules/wigm_prf.py', 'droop/rules/cfer.py', 'droop/rules/scotland.py',
                'droop/rules/mpls.py', 'droop/rules/meek.py', 'droop/rules/meek_prf.py', 'droop/rules/qpq.py']


def droop_quota(cfg, total_raw, seats, integer=False):
    "the prescribed quota (raw) from a raw vote total"
    if integer:
        n = total_raw // cfg.scale if cfg.scale != 1 else int(total_raw)
        return cfg.of_int(n // (seats + 1) + 1)
    if cfg.kind == 'rational':
        return Fraction(total_raw) / (seats + 1)
    q = total_raw // (seats + 1)          # quotient truncated at the arithmetic's last place
    if cfg.kind == 'fixed' or cfg.guard == 0:
        q += 1                            # plus one unit in the last place
    return q


def has_quota(cfg, rule, vote, quota):
    if rule == 'qpq' or cfg.exact:
        return cfg.cmp(vote, quota) > 0
    return vote >= quota


def check(run, opts):
    out = []
    st = dict(quota=0, prestates=0, near=0, held=0, qpq_live=0)
    E, cfg = run.E, run.cfg
    rule = E.rule.name
    method = E.rule.method
    seats = E.nSeats
    nb = cfg.of_int(E.nBallots)
    wd = set(run.profile.withdrawn)
    snaps = run.snaps

    def bad(key, msg, ev):
        out.append((key, '%s at action %d (%s: %s) under %s %s' % (msg, ev.idx, ev.tag, ev.msg, rule, cfg.describe()), dict(action=ev.idx)))

    # ---- (a) quota formula
    integer = rule in ('scotland', 'mpls') or (rule == 'wigm' and bool(opts.get('integer_quota')))       # as requested, not as understood
    if snaps:
        rq = run.E.erecord.get('quota')
        from ..harness import raw
        if rq is not None and raw(rq) != snaps[0].quota:
            bad('record-quota-differs', "record['quota'] %s differs from the first action's quota" % rq, snaps[0])
    first_after_round = False
    for ev in snaps:
        if method == 'wigm':
            want = droop_quota(cfg, nb, seats, integer)
            st['quota'] += 1
            if ev.quota != want:
                bad('quota-formula', 'quota %s != prescribed %s for %d ballots, %d seats' % (cfg.frac(ev.quota), cfg.frac(want), E.nBallots, seats), ev)
                break
        elif method == 'meek':
            if ev.tag == 'end':
                continue            # votes is redefined as the elected total at the end
            st['quota'] += 1
            want = droop_quota(cfg, ev.votes, seats)
            if ev.quota != want:
                bad('quota-formula', 'quota %s != prescribed %s from recorded votes %s, %d seats' % (cfg.frac(ev.quota), cfg.frac(want), cfg.frac(ev.votes), seats), ev)
                break
            if ev.tag == 'iterate' or (ev.tag == 'elect' and 'remaining' not in ev.msg):
                live = sum(c.vote for cid, c in ev.cands.items() if c.state in ('hopeful', 'elected'))
                if live != ev.votes:
                    bad('votes-not-current', 'recorded votes %s != votes still credited %s right after a distribution' % (ev.votes, live), ev)
                    break
        else:   # qpq
            st['quota'] += 1
            want = (ev.va * cfg.scale) // (cfg.of_int(1 + seats) - ev.tx)
            if ev.quota != want:
                bad('quota-formula', 'QPQ quota %s != va/(1+s-tx) = %s' % (ev.quota, want), ev)
                break
            if ev.tag == 'round':
                first_after_round = True
            elif first_after_round and ev.ballots is not None:
                first_after_round = False
                st['qpq_live'] += 1
                va = sum(m for (idx, w, r), m, rk in zip(ev.ballots, run.mults, run.rankings) if idx < len(rk))
                tx = sum(w * m // cfg.scale for (idx, w, r), m, rk in zip(ev.ballots, run.mults, run.rankings) if idx >= len(rk))
                if va != ev.va or tx != ev.tx:
                    bad('qpq-quota-inputs', 'va/tx %s/%s differ from the live ballots %s/%s' % (ev.va, ev.tx, va, tx), ev)
                    break

    # ---- (b),(c),(d) holding the quota
    held = {}       # cid -> action index where first seen holding the quota while hopeful
    undecl = {c.cid for c in E.C if c.isUndeclared} if rule == 'mpls' else set()
    last_iterate = None
    i = 0
    while i < len(snaps):
        ev = snaps[i]
        if ev.tag == 'iterate':
            last_iterate = ev
        # nearness statistic + (d) bookkeeping
        fresh = True
        if method == 'meek':
            fresh = ev.tag == 'iterate'
        if fresh and ev.quota is not None:
            for cid, c in ev.cands.items():
                if cid in wd or c.vote is None:
                    continue
                val = c.quotient if rule == 'qpq' else c.vote
                if val is None:
                    continue
                if (c.state == 'hopeful' or (c.state == 'elected' and c.pending)) and \
                        abs(val - ev.quota) <= (1 if cfg.kind != 'rational' else 0):
                    st['near'] += 1         # a tally landing on / one ulp beside the quota before any transfer from it
                if c.state == 'hopeful' and cid not in undecl and rule != 'qpq' and has_quota(cfg, rule, val, ev.quota):
                    held.setdefault(cid, ev.idx)
        if ev.tag == 'defeat':
            # group of consecutive defeat actions
            j = i
            grp = []
            while j < len(snaps) and snaps[j].tag == 'defeat':
                grp.append(snaps[j])
                j += 1
            remaining = all('remaining' in g.msg.lower() for g in grp)
            pre = ev if rule not in ('meek', 'warren') else (last_iterate or ev)
            before = snaps[i - 1] if i else ev
            newly = set()
            for g, b in zip(grp, [before] + grp[:-1]):
                newly |= {cid for cid, c in g.cands.items() if c.state == 'defeated' and b.cands[cid].state != 'defeated'}
            st['prestates'] += 1
            for cid, c in pre.cands.items():
                if cid in wd or cid in undecl:
                    continue
                was_hopeful = c.state == 'hopeful' or cid in newly
                if not was_hopeful:
                    continue
                val = c.quotient if rule == 'qpq' else c.vote
                if val is None or pre.quota is None:
                    continue
                if has_quota(cfg, rule, val, pre.quota):
                    if cid in newly:
                        bad('excluded-while-holding-quota', 'candidate %d excluded with %s >= quota %s'
                            % (cid, cfg.frac(val), cfg.frac(pre.quota)), ev)
                    elif rule != 'mpls' and not remaining:
                        bad('exclusion-while-hopeful-holds-quota', 'candidate %d is excluded while hopeful %d holds %s, quota %s'
                            % (sorted(newly)[0] if newly else -1, cid, cfg.frac(val), cfg.frac(pre.quota)), ev)
            i = j
            continue
        i += 1
    if run.complete and run.E.elected is not None:
        elected = {c.cid for c in run.E.elected}
        for cid, at in held.items():
            st['held'] += 1
            if cid not in elected:
                out.append(('quota-holder-not-elected', 'candidate %d held the quota while hopeful at action %d but is not elected at the end (%s %s)'
                            % (cid, at, rule, cfg.describe()), dict(action=at)))
    return out, st


def shard(ctx):
    n_min = 60 if ctx.quick else 400
    for i, rng in ctx.cases(n_min, 10 ** 9):
        case = stream.make_case(ctx, rng, WEIGHTS, snap_ballots=True, meek_rational=True)
        if not stream.usable(ctx, case):
            continue
        vs, st = check(case.run, case.opts)
        ctx.count('quota_formula_checks', st['quota'])
        ctx.count('exclusion_prestates_checked', st['prestates'])
        ctx.count('near_quota_snapshots', st['near'])
        ctx.count('quota_holders_followed', st['held'])
        ctx.count('qpq_live_quota_inputs_checked', st['qpq_live'])
        if st['near']:
            ctx.mark_nontrivial(case.hash())
        ctx.sample(stream.sample_of(case))
        for key, msg, wit in vs:
            ctx.violation(key, msg, case.replay_case(), wit)


def replay(case):
    run = stream.replay_run(case, snap_ballots=True)
    if run.timed_out or run.E is None:
        return []
    return [(k, m) for k, m, _ in check(run, case['options'])[0]]
