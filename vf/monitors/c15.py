"""
C15 -- a well-formed ballot file is read as exactly the election it denotes.
Round-trip monitor: generator structure -> adversarial well-formed rendering -> ElectionProfile ->
every public attribute compared with the structure, plus the invariants of an accepted profile.
"""
import os, tempfile
from .. import gen, blt
from ..harness import ElectionProfile, ElectionProfileError, cpu_budget, BudgetExceeded

ID = 'C15'
LEVEL = 'exploration'
RULE_TEXT = ('random election structures enriched with every optional feature of the format (nicknames used as references, [tie], '
             'withdrawn candidates as -n / [withdrawn] / both, [undeclared], [droop] options, ballot ids incl. ids with spaces, empty ballots, '
             'ballots ranking only withdrawn candidates, equal rankings incl. withdrawn candidates inside a group, names with spaces / # / '
             'comment markers / digits / = / non-ASCII, empty names, source and comment strings, trailing junk, 255/256/257 candidates) rendered '
             'with random token layout, tabs, blank lines, # comments and nested /* */ comments (also inside option lists, with quoted words inside '
             'comments); BOM + UTF-8 through path=. Each parsed profile is compared attribute by attribute with the structure and checked '
             'against the invariants of a valid election. non-trivial = rendering uses >= 3 optional features; distinct = distinct texts')
ASSUMPTIONS = ['well-formed = the forms of DESIGN Appendix B (quotes glued to first/last word, single spaces inside strings, non-decimal nicknames, '
               '[nick] before its uses, comment delimiters glued to comment words only)']
MIN_COUNTERS = {'files_parsed': 2000, 'attribute_comparisons': 2000, 'files_with_3_features': 500, 'bom_files': 5, 'big_candidate_counts': 1}
ANCHOR_FILES = ['droop/profile.py']

NICKS = ['a', 'bo', 'Cy', 'dd', 'e5', 'fox', 'g_', 'Hh', 'ii', 'jay', 'k9', 'el', 'em', 'en', 'oh', 'pe',
         '\u2461', '\u00b3', '\u2460\u2462', 'x\u00b2', '\u0663a', '\u2166',     # digit-like characters that are not decimal numbers are nicknames too
         '0_3', '0_1', '1_2', '2_1', '+2', '+1', '1e1', '1.0', '0x2', '_1', '1_', '0b1', '1j', '٣_٣']     # ... and so is anything that is not all digits


def rich_structure(rng, big=False):
    fam = rng.choice(['G1', 'G1', 'G2', 'G6', 'G7', 'G8', 'G8', 'G10'])
    s = gen.FAMILIES[fam](rng, False)
    nc = s['nc']
    cands = list(range(1, nc + 1))
    s['names'] = []
    seen = set()
    for c in cands:
        n = blt.rand_name(rng)
        while n in seen and n != '':
            n = n + ' ' + rng.choice(blt.SAFE_WORDS)
        seen.add(n)
        s['names'].append(n)
    s['title'] = rng.choice(['T', 'An election', 'x # y', '/* not a comment */', '2024 7', 'é ü'])
    if rng.random() < 0.4:
        s['source'] = rng.choice(['src', 'a b c', '# 1'])
        if rng.random() < 0.5:
            s['comment'] = rng.choice(['c', 'x y', '*/ /*'])
    if rng.random() < 0.5 and nc <= len(NICKS):
        nk = rng.sample(NICKS, nc)
        s['nick'] = nk
        s['use_nick'] = rng.random() < 0.8
    if rng.random() < 0.5:
        s['tie'] = rng.sample(cands, nc)
    else:
        s['tie'] = None
    if rng.random() < 0.5:
        k = rng.randint(1, min(3, nc - 1))
        s['withdrawn'] = rng.sample(cands, k)
        s['wd_style'] = rng.choice(['minus', 'option', 'mixed'])
    if rng.random() < 0.3:
        s['undeclared'] = rng.sample(cands, rng.randint(1, min(2, nc)))
    if rng.random() < 0.3:
        s['options'] = rng.sample(['rule=wigm', 'precision=4', 'arithmetic=fixed', 'defeat_batch=zero', 'meek', 'omega=3', 'x=y=z', 'rational'], rng.randint(1, 3))
    wd = set(s['withdrawn'])
    # equal ranks with withdrawn candidates inside a group, groups that vanish, ballots that vanish
    if s.get('eq') and wd and rng.random() < 0.7:
        w = list(wd)
        for _ in range(rng.randint(1, 3)):
            others = [c for c in cands if c not in wd]
            grp = rng.sample(w, min(len(w), rng.randint(1, 2))) + rng.sample(others, rng.randint(0, min(2, len(others))))
            rng.shuffle(grp)
            rest = [c for c in cands if c not in grp]
            tail = [[c] for c in rng.sample(rest, min(len(rest), rng.randint(0, 2)))]
            s['lines'].append((rng.randint(1, 3), [grp] + tail))
    if rng.random() < 0.3:      # empty ballots and ballots ranking only withdrawn candidates
        for _ in range(rng.randint(1, 2)):
            s['lines'].insert(rng.randrange(len(s['lines']) + 1), (rng.randint(1, 2), []))
        for w in list(wd)[:2]:
            s['lines'].insert(rng.randrange(len(s['lines']) + 1), (1, [[w]] if s.get('eq') else [w]))
    if rng.random() < 0.3:
        s['ids'] = True
        s['lines'] = [(1, r) for m, r in s['lines']]
    gen.make_valid(s, rng)
    if s.get('ids'):            # make_valid may have appended a multiplier > 1: expand it
        new = []
        for m, r in s['lines']:
            new += [(1, r)] * m
        s['lines'] = new
    return s


def big_structure(rng, nc):
    cands = list(range(1, nc + 1))
    lines = [(1, [c]) for c in cands]
    lines += [(rng.randint(1, 3), rng.sample(cands, 3)) for _ in range(5)]
    lines.append((2, [nc, 1, 2]))
    s = gen.base(nc, rng.randint(1, 3), lines, rng, tie=rng.random() < 0.6)
    s['names'] = ['c%d' % c for c in cands]
    if rng.random() < 0.3 and nc <= 1000:
        s['nick'] = ['n%d' % c for c in cands]
        s['use_nick'] = True
    s['withdrawn'] = [rng.choice([1, nc])] if rng.random() < 0.5 else []
    return s


def judge(ctx, s, text, features, via_path=False, fixed_path=None):
    ctx.evaluated()
    case = dict(blt=text, via_path=via_path, struct={k: v for k, v in s.items() if k != 'coalition'})
    try:
        with cpu_budget(20.0):
            if fixed_path is not None:
                # the same path written again with other contents (a file corrected in place and read again)
                with open(fixed_path, 'wb') as f:
                    f.write(text.encode('utf-8'))
                p = ElectionProfile(path=fixed_path)
            elif via_path:
                fd, path = tempfile.mkstemp(suffix='.blt', dir=os.path.join(os.path.dirname(os.path.dirname(os.path.dirname(os.path.abspath(__file__)))), 'out'))
                try:
                    with os.fdopen(fd, 'wb') as f:
                        f.write(b'\xef\xbb\xbf' + text.encode('utf-8'))
                    p = ElectionProfile(path=path)
                finally:
                    os.unlink(path)
            else:
                p = ElectionProfile(data=text)
    except ElectionProfileError as e:
        ctx.violation('well-formed-file-rejected:' + ' '.join(str(e).split()[:4]).replace(str(s['nc']), 'N'),
                      'well-formed file rejected: %s (features %s)' % (e, sorted(features)), case)
        return
    except BudgetExceeded:
        ctx.count('not_explored:budget')
        return
    except Exception as e:      # pylint: disable=broad-except
        ctx.violation('parser-raises:%s' % type(e).__name__, 'parser raised %r on a well-formed file (features %s)' % (e, sorted(features)), case)
        return
    ctx.count('files_parsed')
    exp = blt.expected(s)
    diffs = blt.compare(p, exp)
    ctx.count('attribute_comparisons')
    for d in diffs[:3]:
        ctx.violation('misread:' + d.split(':')[0], 'parsed profile differs from the election the file denotes - %s (features %s)' % (d[:300], sorted(features)), case)
    for b in blt.invariants(p):
        ctx.violation('invariant:' + b.split(':')[0][:50], 'accepted profile breaks an invariant: %s' % b, case)
    for f in features:
        ctx.count('feature:' + f)
    if len(features) >= 3:
        ctx.count('files_with_3_features')
        ctx.mark_nontrivial(gen.canon_hash(s, text))
    ctx.sample(dict(text=text[:600], features=sorted(features)), keep=2)


def shard(ctx):
    fixed = [None]
    try:
        _shard(ctx, fixed)
    finally:
        if fixed[0] is not None and os.path.exists(fixed[0]):
            os.unlink(fixed[0])


def _shard(ctx, fixed):
    n_min = 200 if ctx.quick else 3000
    for i, rng in ctx.cases(n_min, 10 ** 9):
        s = rich_structure(rng)
        feats = set()
        text = blt.render(s, rng, feats, comments=rng.random() < 0.8)
        if s.get('eq'):
            feats.add('eq-structure')
        if '' in s['names']:
            feats.add('empty-name')
        judge(ctx, s, text, feats)
        if i % 40 == 0:
            feats2 = set()
            t2 = blt.render(s, rng, feats2)
            ctx.count('bom_files')
            judge(ctx, s, t2, feats2 | {'bom-utf8-path'}, via_path=True)
        if i % 40 == 20:
            # a file corrected in place: the same path, the same length, read again at once - what is read is what is there now
            import copy, random as _random
            s2 = copy.deepcopy(s)
            done = False
            for k, (m, r) in enumerate(s2['lines']):
                flat = r if not s2.get('eq') else None
                if flat and len(flat) >= 2 and len(str(flat[0])) == len(str(flat[1])):
                    flat[0], flat[1] = flat[1], flat[0]
                    done = True
                    break
            if done and not s.get('use_nick'):
                seed = rng.random()
                fa, fb = set(), set()
                ta = blt.render(s, _random.Random(seed), fa)
                tb = blt.render(s2, _random.Random(seed), fb)
                if ta != tb and len(ta.encode('utf-8')) == len(tb.encode('utf-8')):
                    if fixed[0] is None:
                        fd, fixed[0] = tempfile.mkstemp(suffix='.blt', dir=os.path.join(os.path.dirname(os.path.dirname(os.path.dirname(os.path.abspath(__file__)))), 'out'))
                        os.close(fd)
                    ctx.count('files_rewritten_in_place')
                    judge(ctx, s, ta, fa | {'path'}, fixed_path=fixed[0])
                    judge(ctx, s2, tb, fb | {'path', 'rewritten-in-place-same-length'}, fixed_path=fixed[0])
        if i % 60 == ctx.shard % 60:
            nc = rng.choice([255, 256, 257, 300] + ([65535, 65536] if (not ctx.quick and ctx.shard == 0 and i < 100) else []))
            sb = big_structure(rng, nc)
            ctx.count('big_candidate_counts')
            if sb.get('nick'):
                fb = set()
                judge(ctx, sb, blt.render(sb, rng, fb, comments=False), fb | {'n=%d' % nc})
            else:
                judge(ctx, sb, gen.render(sb), {'n=%d' % nc} | ({'tie'} if sb.get('tie') else set()))


def replay(case):
    out = []
    try:
        p = ElectionProfile(data=case['blt'])
    except ElectionProfileError as e:
        return [('well-formed-file-rejected', str(e))]
    except Exception as e:      # pylint: disable=broad-except
        return [('parser-raises:%s' % type(e).__name__, repr(e))]
    for b in blt.invariants(p):
        out.append(('invariant', b))
    if case.get('struct'):
        st = case['struct']
        st['lines'] = [(m, r) for m, r in st['lines']]
        for d in blt.compare(p, blt.expected(st))[:3]:
            out.append(('misread:' + d.split(':')[0], d[:300]))
    return out
