"""
C13 -- guarded arithmetic: tolerance law, guard=0 is fixed, quasi-exact equals exact.
(a) contracts on Guarded comparisons; (b) relational: Guarded(guard 0) vs Fixed, operation by operation and
count by count; (c) relational: guarded vs rational counts under the "no comparison near the tolerance" premise.
"""
import re
from fractions import Fraction
from .. import stream, gen, configs
from ..harness import Fixed, Guarded, Rational, do_count, action_name
from ..valuecontracts import Recorder, install_guarded_cmp, guarded_geps
from droop.options import Options

ID = 'C13'
LEVEL = 'exploration'
RULE_TEXT = ('(a) contract on the six Guarded comparison operators (== iff |a-b| < max(1,10^g/2), else raw order; exactly one of <,==,>): '
             'for precision, guard in 0..6 (and guards up to 40 at three precisions) every difference in {0,1,geps-1,geps,geps+1,2geps} x both signs x several bases is swept, plus random '
             'operands; (b) Guarded(p, guard 0) vs Fixed(p): same raw result, same printed form, same comparison for every operation on grids '
             'and random operands, and wigm/meek/warren counts with omega/precision/display pinned give identical dumps and action lists; '
             '(c) guarded vs rational count of the same profile: whenever the guarded statistics satisfy maxDiff*10^3 <= geps <= minDiff/10^3 '
             'and 2*ulp*ballots*actions <= geps/10^3, the histories must have the same actions, statuses and every tally/quota within 10^-p. '
             'non-trivial = a comparison on the tolerance boundary, or a count pair with >= 2 fractional transfers / >= 3 Meek iterations')
ASSUMPTIONS = ['the premise of (c) is the fixed numeric reading given above; pairs failing it are counted as not_evaluated',
               'rational Meek/Warren only on tiny profiles within the CPU budget']
MIN_COUNTERS = {'comparison_contract_evaluations': 50000, 'boundary_comparisons': 5000, 'guard0_op_pairs': 20000,
                'guard0_count_pairs': 60, 'quasi_exact_pairs_evaluated': 60}
ANCHOR_FILES = ['droop/values/guarded.py', 'droop/values/fixed.py', 'droop/values/rational.py', 'droop/rules/wigm.py', 'droop/rules/meek.py']

NUM = re.compile(r'-?\d+\.\d+(_\d+)?|-?\d+')


def drive_comparisons(rec, rng, exhaustive):
    # guards far beyond everyday use too: anything that goes through a float stops being exact at 10^23
    pairs = ([(p, g) for p in range(0, 7) for g in range(0, 7)] + [(p, g) for p in (0, 3, 9) for g in (9, 12, 15, 18, 20, 22, 23, 24, 25, 26, 27, 28, 30, 33, 36, 40)]) \
        if exhaustive else [(rng.randint(0, 18), rng.choice([rng.randint(0, 12), rng.randint(13, 40)])) for _ in range(6)]
    for p, g in pairs:
        Guarded.initialize(Options(dict(arithmetic='guarded', precision=p, guard=g)))
        geps = guarded_geps()
        S = 10 ** (p + g)
        bases = [0, 1, -1, S, -S, 7 * S + 3, rng.randint(-10 ** 30, 10 ** 30), rng.randint(-S * 50, S * 50)]
        diffs = {0, 1, geps - 1, geps, geps + 1, 2 * geps, geps // 2, 2 * geps - 1, 2 * geps + 1}
        for b in bases:
            for d in diffs:
                for sg in (1, -1):
                    x, y = Guarded(b + sg * d, True), Guarded(b, True)
                    x == y; x != y; x < y; x <= y; x > y; x >= y     # noqa
                    y == x; y != x; y < x; y <= x; y > x; y >= x     # noqa
        for _ in range(40):
            a = rng.randint(-S * 100, S * 100)
            c = a + rng.choice([-1, 1]) * rng.randint(0, 3 * geps)
            x, y = Guarded(a, True), Guarded(c, True)
            x == y; x != y; x < y; x <= y; x > y; x >= y             # noqa
        # each operator on its own, in both operand orders, straight after the statistics were reset: whichever comparison is the
        # first to see a difference must leave it in the statistics (the contract reads them right after the call)
        import operator
        o = Options(dict(arithmetic='guarded', precision=p, guard=g))
        for op in (operator.eq, operator.ne, operator.lt, operator.le, operator.gt, operator.ge):
            for d in (1, geps // 2, geps - 1, geps, geps + 1, 3 * geps):
                if d <= 0:
                    continue
                b = rng.randint(-S * 10, S * 10)
                for lo_first in (True, False):
                    Guarded.initialize(o)
                    x, y = Guarded(b, True), Guarded(b + d, True)
                    op(x, y) if lo_first else op(y, x)


def guard0_ops(rng, ctx, exhaustive):
    "Guarded(p, 0) against Fixed(p): same raw results, strings and comparisons"
    fails = []
    n = 0
    ps = list(range(0, 5)) if exhaustive else [rng.randint(0, 20) for _ in range(3)]
    for p in ps:
        d = rng.choice([None, None, 0, max(0, p - 1), p])
        og = dict(arithmetic='guarded', precision=p, guard=0)
        of = dict(arithmetic='fixed', precision=p)
        if d is not None:
            og['display'] = of['display'] = d
        Guarded.initialize(Options(og))
        Fixed.initialize(Options(of))
        if exhaustive:
            vals = list(range(-25, 26)) + [10 ** p, -10 ** p, 10 ** p + 1, 999, -1001]
            triples = [(a, b, c) for a in vals for b in vals for c in (3, -7, 10 ** p or 1)]
        else:
            mag = 10 ** rng.randint(1, 35)
            triples = [(rng.randint(-mag, mag), rng.randint(-mag, mag), rng.randint(-mag, mag)) for _ in range(300)]
        for a, b, c in triples:
            n += 1
            ga, gb, gc = Guarded(a, True), Guarded(b, True), Guarded(c, True)
            fa, fb, fc = Fixed(a, True), Fixed(b, True), Fixed(c, True)
            res = [('add', ga + gb, fa + fb), ('sub', ga - gb, fa - fb), ('mul', ga * gb, fa * fb), ('neg', -ga, -fa), ('abs', abs(gb), abs(fb)),
                   ('mul-down', Guarded.mul(ga, gb, round='down'), Fixed.mul(fa, fb, round='down')),
                   ('mul-up', Guarded.mul(ga, gb, round='up'), Fixed.mul(fa, fb, round='up')),
                   ('mulint', ga * 7, fa * 7), ('addint', ga + 3, fa + 3)]
            if b != 0:
                res += [('div', ga / gb, fa / fb), ('floordiv', ga // gb, fa // fb),
                        ('div-down', Guarded.div(ga, gb, round='down'), Fixed.div(fa, fb, round='down')),
                        ('div-up', Guarded.div(ga, gb, round='up'), Fixed.div(fa, fb, round='up')), ('divint', ga / 3, fa / 3)]
            if c != 0:
                res += [('muldiv-down', Guarded.muldiv(ga, gb, gc, round='down'), Fixed.muldiv(fa, fb, fc, round='down')),
                        ('muldiv-up', Guarded.muldiv(ga, gb, gc, round='up'), Fixed.muldiv(fa, fb, fc, round='up'))]
            for name, g, f in res:
                if g._value != f._value:
                    fails.append(('guard0:%s:raw-differs' % name, '%s on raw (%s,%s,%s) p=%d: guarded %s, fixed %s' % (name, a, b, c, p, g._value, f._value)))
                elif str(g) != str(f):
                    fails.append(('guard0:str-differs', 'raw %s p=%d display=%s: guarded %r, fixed %r' % (g._value, p, d, str(g), str(f))))
            for name, g, f in (('eq', ga == gb, fa == fb), ('ne', ga != gb, fa != fb), ('lt', ga < gb, fa < fb), ('le', ga <= gb, fa <= fb),
                               ('gt', ga > gb, fa > fb), ('ge', ga >= gb, fa >= fb), ('bool', bool(ga), bool(fa)),
                               ('min', Guarded.min([ga, gb, gc])._value, Fixed.min([fa, fb, fc])._value)):
                if g != f:
                    fails.append(('guard0:%s:differs' % name, '%s on raw (%s,%s) p=%d: guarded %r, fixed %r' % (name, a, b, p, g, f)))
            if Guarded.exact or Guarded.quasi_exact or Guarded.epsilon._value != 1:
                fails.append(('guard0:flags', 'guard 0 but exact=%s quasi_exact=%s' % (Guarded.exact, Guarded.quasi_exact)))
            if len(fails) > 400:
                return fails, n
    return fails, n


def events_equal(r1, r2):
    a = [e.astuple() for e in r1.events]
    b = [e.astuple() for e in r2.events]
    if a == b:
        return None
    k = next((i for i, (x, y) in enumerate(zip(a, b)) if x != y), min(len(a), len(b)))
    return 'action %d: %r vs %r' % (k, a[k][:3] if k < len(a) else None, b[k][:3] if k < len(b) else None)


def guard0_count(ctx, rng):
    rule = rng.choice(['wigm', 'wigm', 'meek', 'warren'])
    p = rng.randint(0, 12) if rule == 'wigm' else rng.choice([1, 1, 2, 2, 3, 4, 5, 6, 8, 9, 12])
    og = dict(rule=rule, arithmetic='guarded', precision=p, guard=0)
    of = dict(rule=rule, arithmetic='fixed', precision=p)
    extra = {}
    if rule != 'wigm':
        extra['omega'] = rng.randint(1, p)
        if rng.random() < 0.4:
            extra['defeat_batch'] = 'none'
    else:
        if rng.random() < 0.3:
            extra['integer_quota'] = True
        if rng.random() < 0.3:
            extra['defeat_batch'] = 'zero'
    if rng.random() < 0.3:
        extra['display'] = rng.randint(0, p)
    og.update(extra)
    of.update(extra)
    fam = dict(G8=1, G8b=2) if (rule != 'wigm' and rng.random() < 0.4) else dict(G1=3, G2=1, G3=2, G4=3, G6=1, G10=1)
    s = gen.pick(rng, fam, False)
    blt = gen.render(s)
    r1 = do_count(blt, og, budget=stream.budget_for(ctx), render=True)
    r2 = do_count(blt, of, budget=stream.budget_for(ctx), render=True)
    ctx.evaluated()
    if r1.timed_out or r2.timed_out:
        ctx.count('not_explored:budget')
        return
    if (r1.error is None) != (r2.error is None):
        ctx.violation('guard0:count-one-side-raises', 'guarded g0 error %r, fixed error %r' % (r1.error, r2.error), dict(blt=blt, og=og, of=of, kind='guard0'))
        return
    if r1.error is not None:
        ctx.count('both_raised')
        return
    ctx.count('guard0_count_pairs')
    d = events_equal(r1, r2)
    if d:
        ctx.violation('guard0:count-actions-differ', 'guarded guard=0 and fixed histories differ at %s under %s' % (d, configs.describe(of)),
                      dict(blt=blt, og=og, of=of, kind='guard0'))
    elif r1.dump != r2.dump:
        ctx.violation('guard0:count-dump-differs', 'dumps differ under %s' % configs.describe(of), dict(blt=blt, og=og, of=of, kind='guard0'))
    if any(e.tag == 'transfer' for e in r1.events):
        ctx.mark_nontrivial('g0:' + gen.canon_hash(s, configs.describe(of)))
    ctx.sample(dict(kind='guard0-count-pair', blt=blt, guarded=og, fixed=of, actions=len(r1.events)), keep=1)


def names_in(msg):
    return NUM.sub('#', msg)


def quasi_exact_pair(ctx, rng):
    rule = rng.choice(['wigm', 'wigm', 'wigm', 'meek', 'warren'])
    if rule == 'wigm':
        p = rng.choice([9, 12, 15, 18, 18])
        g = rng.choice([6, 9, 9, 12])
        og = dict(rule=rule, arithmetic='guarded', precision=p, guard=g)
        orr = dict(rule=rule, arithmetic='rational')
        if rng.random() < 0.3:
            og['defeat_batch'] = orr['defeat_batch'] = 'zero'
        s = gen.pick(rng, dict(G1=3, G2=1, G3=2, G4=3, G6=1, G10=1), False)
    else:
        p, g = rng.choice([(12, 9), (18, 9), (15, 12)])
        om = rng.randint(2, 4)
        og = dict(rule=rule, arithmetic='guarded', precision=p, guard=g, omega=om)
        orr = dict(rule=rule, arithmetic='rational', omega=om)
        if rng.random() < 0.4:
            og['defeat_batch'] = orr['defeat_batch'] = 'none'
        s = gen.pick(rng, dict(G1=2, G6=1), False)
        s['lines'] = s['lines'][:9]
        if s['nc'] > 5:
            keep = set(range(1, 6))
            s['lines'] = [(m, [c for c in r if c in keep]) for m, r in s['lines']]
            s['lines'] = [(m, r) for m, r in s['lines'] if r]
            s.update(nc=5, names=s['names'][:5], tie=[c for c in (s['tie'] or []) if c <= 5] or None, withdrawn=[], undeclared=[])
        gen.make_valid(s, rng)
    if rng.random() < 0.15:
        # a difference just inside the tolerance, by construction: the statistics must own up to it (then the pair is not evaluated),
        # or the guarded count must still equal the exact one
        s = gen.g13_near_tolerance(rng, og['precision'])
        ctx.count('quasi_exact_pairs_with_a_difference_inside_the_tolerance')
    blt = gen.render(s)
    rg = do_count(blt, og, budget=stream.budget_for(ctx))
    # statistics belong to the class: read them before anything else initialises Guarded
    maxd, mind = Guarded.maxDiff, Guarded.minDiff
    ctx.evaluated()
    if rg.timed_out or rg.error is not None:
        ctx.count('quasi_exact:guarded_side_not_usable')
        return
    rr = do_count(blt, orr, budget=stream.budget_for(ctx) * 2)
    if rr.timed_out:
        ctx.count('not_explored:budget:%s/rational' % rule)
        return
    if rr.error is not None:
        ctx.count('quasi_exact:rational_side_raised')
        return
    cfg = rg.cfg
    geps = cfg.geps
    nact = len(rg.snaps)
    premise = maxd * 1000 <= geps <= mind // 1000 and 2 * rg.E.nBallots * nact <= geps // 1000
    if not premise:
        ctx.count('quasi_exact_pairs_not_evaluated(premise)')
        return
    ctx.count('quasi_exact_pairs_evaluated')
    tol = Fraction(1, 10 ** p)
    case = dict(blt=blt, og=og, orr=orr, kind='quasi-exact')
    a = [e for e in rg.events if e.tag != 'log']
    b = [e for e in rr.events if e.tag != 'log']
    if [(e.tag, e.round, names_in(e.msg)) for e in a] != [(e.tag, e.round, names_in(e.msg)) for e in b]:
        k = next((i for i, (x, y) in enumerate(zip(a, b)) if (x.tag, x.round, names_in(x.msg)) != (y.tag, y.round, names_in(y.msg))), min(len(a), len(b)))
        ctx.violation('quasi-exact:actions-differ', 'guarded (stats clean: maxDiff %s minDiff %s geps %s) and rational histories differ at action %d: %r vs %r'
                      % (maxd, mind, geps, k, (a[k].tag, a[k].msg) if k < len(a) else None, (b[k].tag, b[k].msg) if k < len(b) else None), case)
        return
    for x, y in zip(a, b):
        for cid, c in x.cands.items():
            d = y.cands[cid]
            if c.state != d.state or bool(c.pending) != bool(d.pending):
                ctx.violation('quasi-exact:status-differs', 'candidate %d is %s under guarded, %s under rational at action %d' % (cid, c.state, d.state, x.idx), case)
                return
            if c.vote is not None and abs(cfg.frac(c.vote) - Fraction(d.vote)) > tol:
                ctx.violation('quasi-exact:tally-differs', 'candidate %d tally %s vs exact %s at action %d (%s) differ by more than 10^-%d'
                              % (cid, float(cfg.frac(c.vote)), float(d.vote), x.idx, x.tag, p), case)
                return
        if x.quota is not None and abs(cfg.frac(x.quota) - Fraction(y.quota)) > tol:
            ctx.violation('quasi-exact:quota-differs', 'quota differs by more than 10^-%d at action %d' % (p, x.idx), case)
            return
    ntransfers = sum(1 for e in a if e.tag in ('transfer', 'iterate'))
    if ntransfers >= 2:
        ctx.mark_nontrivial('qe:' + gen.canon_hash(s, configs.describe(og)))
    ctx.sample(dict(kind='quasi-exact-pair', blt=blt, guarded=og, rational=orr, maxDiff=maxd, minDiff=mind, geps=geps, actions=len(a)), keep=1)


def shard(ctx):
    rec = Recorder()
    rm = install_guarded_cmp(rec)
    try:
        rng0 = ctx.case_rng(-1)
        if ctx.shard < 4:                   # the boundary sweep is small: a few shards do all of it, all do random ones
            drive_comparisons(rec, rng0, True)
            ctx.count('comparison_boundary_sweeps_complete')
        for k in range(20 if ctx.quick else 200):
            drive_comparisons(rec, ctx.case_rng(-2 - k), False)
    finally:
        rm()
    ctx.count('comparison_contract_evaluations', rec.total())
    ctx.count('boundary_comparisons', rec.inexact)
    ctx.evaluated(rec.total())
    for h in rec.distinct:
        ctx.mark_nontrivial('%x' % (h & 0xffffffffffffffff))
    for key, msg in rec.fails:
        ctx.violation(key, msg, dict(kind='contract', message=msg))
    # ---- (b) operations
    fails, n = guard0_ops(ctx.case_rng(-1000), ctx, ctx.shard == 0)
    for k in range(10 if ctx.quick else 100):
        f2, n2 = guard0_ops(ctx.case_rng(-1001 - k), ctx, False)
        fails += f2
        n += n2
    ctx.count('guard0_op_pairs', n * 25)
    ctx.evaluated(n)
    for key, msg in fails:
        ctx.violation(key, msg, dict(kind='guard0-ops', message=msg))      # ctx keeps a few witnesses per key
    # ---- (b) counts and (c) count pairs
    n_min = 12 if ctx.quick else 100
    for i, rng in ctx.cases(n_min, 10 ** 9):
        if i % 2 == 0:
            guard0_count(ctx, rng)
        else:
            quasi_exact_pair(ctx, rng)


def replay(case):
    out = []
    if case.get('kind') == 'guard0':
        r1 = do_count(case['blt'], case['og'], budget=60, render=True)
        r2 = do_count(case['blt'], case['of'], budget=60, render=True)
        if r1.error is None and r2.error is None and (events_equal(r1, r2) or r1.dump != r2.dump):
            out.append(('guard0:count-differs', 'histories or dumps differ on replay'))
    elif case.get('kind') == 'quasi-exact':
        class C:
            pass
        from ..engine import Ctx
        ctx = Ctx('C13', 'quick', 0, 0, 1, 60)
        rg = do_count(case['blt'], case['og'], budget=60)
        rr = do_count(case['blt'], case['orr'], budget=120)
        a = [(e.tag, e.round, names_in(e.msg)) for e in rg.events if e.tag != 'log']
        b = [(e.tag, e.round, names_in(e.msg)) for e in rr.events if e.tag != 'log']
        if a != b:
            out.append(('quasi-exact:actions-differ', 'histories differ on replay'))
    else:
        rec = Recorder()
        rm = install_guarded_cmp(rec)
        try:
            import random
            drive_comparisons(rec, random.Random(0), True)
        finally:
            rm()
        out += rec.fails[:5]
        f, n = guard0_ops(__import__('random').Random(0), None, True)
        out += f[:5]
    return out
