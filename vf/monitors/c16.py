"""
C16 -- any text is either a valid profile or a clean profile error.
Fault-input monitor on the parser and the eleven election constructors.
"""
import traceback
from .. import gen, blt
from ..harness import ElectionProfile, ElectionProfileError, Election, RULES, cpu_budget, BudgetExceeded
from . import c15

ID = 'C16'
LEVEL = 'exploration'
RULE_TEXT = ('texts offered to ElectionProfile(data=...): for a set of fixed seed files plus freshly generated feature-rich renderings, every '
             'prefix at token granularity and at character granularity, every single-token deletion / duplication / neighbour swap, and every '
             'single-token replacement and insertion from a hostile alphabet (out-of-range and negative ids, -n forms, = groups with repeats, '
             'unbalanced quotes / brackets / parentheses / comment markers, 5000-digit numbers, non-ASCII digits, separators) - this mutation '
             'set is enumerated completely per seed file - plus token soups over the BLT alphabet, arbitrary unicode strings, and files on disk offered through path= (other encodings, truncated multi-byte sequences, stray and random bytes). Outcome must be '
             'ElectionProfileError or a profile satisfying the invariants of a valid election; accepted profiles without [droop] options must '
             'construct under all 11 rules. non-trivial = a text that is not a valid file yet is accepted, or is rejected from inside the ballot '
             '/ name sections; distinct = distinct texts')
ASSUMPTIONS = ['a CPU budget overrun on a text is re-run alone with 20x the budget before being reported as a hang',
               'UsageError / ElectionError from the constructor are failures too: the property says the constructor does not fail']
MIN_COUNTERS = {'texts_tried': 20000, 'rejected_cleanly': 5000, 'accepted': 1000, 'constructor_calls': 5000,
                'mutation_sets_completed': 4}
ANCHOR_FILES = ['droop/profile.py', 'droop/election.py']

SEEDS = [
    '3 2 4 1 2 0 2 3 0 0 "Castor" "Pollux" "Helen" "Pollux and Helen should tie"',
    '4 2 [nick a b c d] [tie d c b a] -2 [undeclared d] 3 a c 0 2 b=c d 0 1 d 0 0 "A a" "B" "C /* x */" "D # y" "Title t" "Source s" "Comment c"',
    '3 1 (x1) 1 2 0 (x 2) 3 0 (x3) 2 1 3 0 0 "A" "B" "C" "T"',
    '5 2 [withdrawn 5] [droop rule=wigm precision=4] /* c /* n */ */ 2 1 2 3 0 # eol\n 3 3=4 1 0 1 5 0 4 2 0 0 "A" "B" "C" "D" "E" "T" "S"',
    '2 1 -1 [tie 2 1] 1 1 0 2 2 1 0 0 "" "b" "t"',
]
ALPHABET = ['0', '1', '2', '3', '4', '5', '-1', '-2', '-0', '-9', '00', '+1', '1.0', '(a)', '(a', 'b)', '(', ')', '[tie', '[nick', '[withdrawn',
            '[undeclared', '[droop', ']', '[tie]', '[x]', '[', '[nick]', '[withdrawn]', '1=2', '1=1', '2=', '=', '=3', '1==2', '"', '"a', 'a"', '"a"',
            '""', '#', '#x', '/*', '*/', '/*x*/', 'a', 'rule=wigm', 'rule=bogus', 'precision=x', '9' * 5000, '-' + '9' * 5000, '٣', '３', '²',
            'x' * 5, '\x1c', ' ', '﻿3', '1]', '2]', '0]', '256', '-256', '65536', '1=2=2', '2=2', '1 2', '\x00', 'é']


def invariants_and_ctor(ctx, p, text, kind):
    bad = blt.invariants(p)
    for b in bad:
        ctx.violation('accepted-profile-breaks-invariant:' + b.split(':')[0][:60],
                      'accepted profile breaks an invariant: %s (%s)' % (b, kind), dict(blt=text))
    if bad or p.options:
        return
    for r in RULES:
        ctx.count('constructor_calls')
        try:
            with cpu_budget(20.0):
                Election(p, dict(rule=r))
        except BudgetExceeded:
            ctx.count('not_explored:ctor-budget')
        except Exception as e:      # pylint: disable=broad-except
            tb = traceback.extract_tb(e.__traceback__)
            where = tb[-1].name if tb else '?'
            ctx.violation('constructor-fails:%s:%s' % (type(e).__name__, where),
                          'Election(profile, rule=%s) raised %r for an accepted profile without options (%s)' % (r, e, kind), dict(blt=text))
            break


def trial(ctx, text, kind, valid_known=False):
    ctx.evaluated()
    ctx.count('texts_tried')
    ctx.count('kind:' + kind)
    budget = 5.0
    for attempt in (1, 2):
        try:
            with cpu_budget(budget):
                p = ElectionProfile(data=text)
            break
        except ElectionProfileError as e:
            ctx.count('rejected_cleanly')
            msg = str(e)
            if not valid_known and ('near ballot' in msg or 'candidate name' in msg or 'title' in msg or 'duplicated' in msg or 'too few' in msg):
                ctx.mark_nontrivial(gen.canon_hash(dict(nc=0, ns=0, withdrawn=[], undeclared=[], lines=[]), text))
            return
        except BudgetExceeded:
            if attempt == 1:
                ctx.count('budget_overrun_first')
                budget *= 20
                continue
            ctx.violation('parser-hangs', 'parser exceeded %gs CPU twice on a %d-character text (%s)' % (budget, len(text), kind), dict(blt=text))
            return
        except Exception as e:      # pylint: disable=broad-except
            tb = traceback.extract_tb(e.__traceback__)
            where = next((fr.name for fr in reversed(tb) if 'droop' in fr.filename), tb[-1].name if tb else '?')
            ctx.violation('parser-raises:%s:%s' % (type(e).__name__, where), 'parser raised %s: %s (%s)' % (type(e).__name__, str(e)[:120], kind), dict(blt=text))
            return
    ctx.count('accepted')
    if not valid_known:
        ctx.mark_nontrivial(gen.canon_hash(dict(nc=0, ns=0, withdrawn=[], undeclared=[], lines=[]), text))
    invariants_and_ctor(ctx, p, text, kind)
    ctx.sample(dict(kind=kind, text=text[:300]), keep=3)


def trial_bytes(ctx, data, kind):
    "the text offered as a file on disk (path=), possibly not valid UTF-8"
    import os, tempfile
    ctx.evaluated()
    ctx.count('texts_tried')
    ctx.count('kind:' + kind)
    out = os.path.join(os.path.dirname(os.path.dirname(os.path.dirname(os.path.abspath(__file__)))), 'out')
    fd, path = tempfile.mkstemp(suffix='.blt', dir=out)
    try:
        with os.fdopen(fd, 'wb') as f:
            f.write(data)
        try:
            with cpu_budget(20.0):
                p = ElectionProfile(path=path)
        except ElectionProfileError:
            ctx.count('rejected_cleanly')
            return
        except BudgetExceeded:
            ctx.count('budget_overrun_first')
            return
        except Exception as e:      # pylint: disable=broad-except
            tb = traceback.extract_tb(e.__traceback__)
            where = next((fr.name for fr in reversed(tb) if 'droop' in fr.filename), tb[-1].name if tb else '?')
            ctx.violation('parser-raises:%s:%s' % (type(e).__name__, where), 'reading a %d-byte file raised %s: %s (%s)'
                          % (len(data), type(e).__name__, str(e)[:120], kind), dict(blt=data.decode('latin-1'), as_bytes_latin1=True))
            return
    finally:
        os.unlink(path)
    ctx.count('accepted')
    ctx.count('files_via_path_accepted')
    invariants_and_ctor(ctx, p, data.decode('utf-8', 'replace'), kind)


def mutation_set(ctx, seed, chars=True):
    "complete enumeration of prefixes and single-token mutations of one seed text"
    toks = seed.split()
    for i in range(len(toks) + 1):
        trial(ctx, ' '.join(toks[:i]), 'token-prefix')
    if chars:
        for i in range(len(seed) + 1):
            trial(ctx, seed[:i], 'char-prefix')
    for i in range(len(toks)):
        for a in ALPHABET:
            trial(ctx, ' '.join(toks[:i] + [a] + toks[i + 1:]), 'replace')
            trial(ctx, ' '.join(toks[:i] + [a] + toks[i:]), 'insert')
        trial(ctx, ' '.join(toks[:i] + toks[i + 1:]), 'delete')
        trial(ctx, ' '.join(toks[:i] + [toks[i]] + toks[i:]), 'duplicate')
        if i + 1 < len(toks):
            trial(ctx, ' '.join(toks[:i] + [toks[i + 1], toks[i]] + toks[i + 2:]), 'swap')
    ctx.count('mutation_sets_completed')


def shard(ctx):
    trial(ctx, SEEDS[0], 'seed', valid_known=True)
    # fixed seeds are partitioned over shards; generated seeds differ per shard
    for k, seed in enumerate(SEEDS):
        if k % ctx.nshards == ctx.shard % len(SEEDS) and ctx.shard < len(SEEDS):
            mutation_set(ctx, seed)
    n_min = 2 if ctx.quick else 20
    for i, rng in ctx.cases(n_min, 10 ** 9):
        mode = i % 3
        if mode == 0:
            s = c15.rich_structure(rng)
            s['lines'] = s['lines'][:8]
            gen.make_valid(s, rng)
            if s.get('ids'):
                new = []
                for m, r in s['lines']:
                    new += [(1, r)] * m
                s['lines'] = new
            text = blt.render(s, rng, set(), comments=rng.random() < 0.5)
            mutation_set(ctx, text, chars=len(text) < 700)
        elif mode == 1:
            for _ in range(400):
                n = rng.randint(1, 25)
                trial(ctx, ' '.join(rng.choice(ALPHABET[:60]) for _ in range(n)), 'soup')
        else:
            for _ in range(200):
                n = rng.randint(0, 60)
                trial(ctx, ''.join(chr(rng.choice([rng.randint(0, 0x7f), rng.randint(0x80, 0x2fff), rng.randint(0xd800, 0xdfff),
                                                   rng.randint(0x1f000, 0x1ffff), 0x20, 0x0a, 0x22, 0x30, 0x31])) for _ in range(n)), 'unicode')
            # files on disk: other encodings, truncated multi-byte sequences, stray bytes
            base = rng.choice(SEEDS).replace('Castor', 'Cast\u00f6r').replace('"A"', '"\u00c4"')
            for _ in range(25):
                k = rng.randint(0, 5)
                if k == 0:
                    data = base.encode('latin-1', 'replace')
                elif k == 1:
                    data = base.encode('utf-16')
                elif k == 2:
                    b = base.encode('utf-8')
                    cut = rng.randint(1, len(b))
                    data = b[:cut]
                elif k == 3:
                    b = bytearray(base.encode('utf-8'))
                    b.insert(rng.randint(0, len(b)), rng.choice([0xff, 0xfe, 0x80, 0xc3, 0x00]))
                    data = bytes(b)
                elif k == 4:
                    data = bytes(rng.randint(0, 255) for _ in range(rng.randint(0, 80)))
                else:
                    data = b'\xef\xbb\xbf' + base.encode('utf-8')
                trial_bytes(ctx, data, 'file-bytes')
            # structured numeric soups: headers with extreme counts
            for _ in range(100):
                nc = rng.choice([0, 1, 2, 3, 255, 256, 65535, 65536, 10 ** 6, 2 ** 32 - 1, 2 ** 32, 10 ** 12, 2 ** 63, 2 ** 64 - 1, 2 ** 64, 10 ** 20, 10 ** 40])
                ns = rng.choice([0, 1, 2, nc, nc + 1])

                def cid():
                    "a ranked candidate number: small, or at the top of the declared range (any width of integer), or beyond it"
                    return rng.choice([rng.randint(0, max(1, min(nc, 9))), nc, max(1, nc - 1), max(1, nc // 2), nc + 1, 2 ** 32, 2 ** 64 - 1])
                body = ' '.join('%d %s 0' % (rng.choice([0, 1, 7, 10 ** 20]), ' '.join(str(cid()) for _ in range(rng.randint(1, 3)))) for _ in range(rng.randint(0, 4)))
                names = ' '.join('"n%d"' % k for k in range(min(nc, rng.randint(0, 5))))
                trial(ctx, '%d %d %s 0 %s "t"' % (nc, ns, body, names), 'extreme-header')


def replay(case):
    text = case['blt']
    try:
        p = ElectionProfile(data=text)
    except ElectionProfileError:
        return []
    except Exception as e:      # pylint: disable=broad-except
        return [('parser-raises:%s' % type(e).__name__, repr(e)[:200])]
    out = [('accepted-profile-breaks-invariant', b) for b in blt.invariants(p)]
    if not out and not p.options:
        for r in RULES:
            try:
                Election(p, dict(rule=r))
            except Exception as e:      # pylint: disable=broad-except
                out.append(('constructor-fails:%s' % type(e).__name__, '%s: %r' % (r, e)))
                break
    return out
