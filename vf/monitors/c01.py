"""
C01 -- every count terminates with the seats filled and every candidate decided.
Hook invariant (withdrawn candidates inert at every snapshot) + final-state oracle + CPU watchdog.
"""
from .. import stream, gen
from ..harness import do_count, expected_domain_error

ID = 'C01'
LEVEL = 'exploration'
RULE_TEXT = ('random valid profiles from families G1-G10 (G6 degenerate, G7 withdrawn/undeclared and G10 sure-loser '
             'ladders weighted x3) x all 11 rule names x the arithmetic/option matrix of vf/configs.py; each count runs '
             'traced under a CPU budget; non-trivial = the count contains at least one exclusion that is not an '
             'end-of-count "remaining" defeat and at least one election by quota; distinct = distinct '
             '(election structure, configuration) hashes')
ASSUMPTIONS = ['a CPU-budget overrun is not a verdict unless confirmed in isolation with 20x the budget, and never for '
               'meek/warren with rational arithmetic (exponential by design: not explored)',
               'electable = not withdrawn, and under mpls not an undeclared write-in (the property\'s definition)']
MIN_COUNTERS = {'counts_judged': 200, 'final_state_checked': 200, 'withdrawn_snapshots_checked': 50}
WEIGHTS = dict(G1=2, G2=2, G3=1, G4=1, G5=1, G6=4, G7=4, G9=1, G10=4, G11=2)
ANCHOR_FILES = ['droop/election.py', 'droop/rules/wigm.py', 'droop/rules/wigm_prf.py', 'droop/rules/cfer.py',
                'droop/rules/scotland.py', 'droop/rules/mpls.py', 'droop/rules/meek.py', 'droop/rules/meek_prf.py',
                'droop/rules/qpq.py']


def odd_names(rng, s):
    "a name is data: a percent sign, a brace or one of the package's own words in it must not stop a count (one case in eight)"
    if rng.random() < 0.125:
        s['names'] = gen.hostile_names(rng, s['nc'], repeats=rng.random() < 0.3)


def undeclared_of(run):
    "the write-ins as the ballot file lists them (every [undeclared ...] item of the canonical text), not as the package read them"
    if run.blt is None:
        return {c.cid for c in run.E.C if c.isUndeclared}
    import re
    out = set()
    for m in re.finditer(r'^\[undeclared ([0-9 ]*)\]$', run.blt, re.M):
        out |= {int(t) for t in m.group(1).split()}
    return out


def electable_cids(run):
    E = run.E
    mpls = E.rule.name == 'mpls'
    und = undeclared_of(run) if mpls else set()
    wd = set(run.profile.withdrawn)
    return [c.cid for c in E.C if c.cid not in wd and c.cid not in und]


def check(run, opts):
    "return [(key, msg, witness)] for a completed or failed execution"
    out = []
    rule = opts['rule']
    if run.error is not None:
        if run.phase in ('construct', 'count'):
            key = 'raises:%s:%s' % (type(run.error).__name__, stream.exc_site(run.error))
            if kf_underflow(run):
                key = 'meek-guarded-kf-underflow-zero-division'
            elif truncated_kf_overelects(run):
                key = 'meek-guarded-truncated-kf-overelects'
            out.append((key,
                        '%s during %s under %s: %s' % (type(run.error).__name__, run.phase, rule, str(run.error)[:200]),
                        dict(phase=run.phase)))
        return out
    E = run.E
    # ---- hook invariant: withdrawn candidates are inert at every snapshot
    wd = [c.cid for c in E.C if c.cid in run.profile.withdrawn]
    for ev in run.snaps:
        for cid in wd:
            c = ev.cands[cid]
            if c.state != 'withdrawn' or (c.vote is not None and c.vote != 0):
                out.append(('withdrawn-active', 'withdrawn candidate %s has state %s vote %s at action %d (%s)'
                            % (cid, c.state, c.vote, ev.idx, ev.tag), dict(action=ev.idx)))
                break
    # ---- final state
    elected = {c.cid for c in E.elected}
    defeated = {c.cid for c in E.defeated}
    withdrawn = {c.cid for c in E.withdrawn}
    elig = {c.cid for c in E.C if c.cid not in run.profile.withdrawn}
    electable = set(electable_cids(run))
    want = min(E.nSeats, len(electable))
    if len(elected) != want:
        out.append(('wrong-number-of-winners', '%d elected, expected min(seats=%d, electable=%d) under %s'
                    % (len(elected), E.nSeats, len(electable), rule), dict(elected=sorted(elected))))
    if elected & defeated:
        out.append(('elected-and-defeated', 'candidates %s both elected and defeated' % sorted(elected & defeated), None))
    undecided = elig - elected - defeated
    if undecided:
        out.append(('undecided-candidate', 'candidates %s neither elected nor defeated at the end (states %s)'
                    % (sorted(undecided), [E.C.byCid(c).state for c in sorted(undecided)]), None))
    if withdrawn != set(run.profile.withdrawn):
        out.append(('withdrawn-set-changed', 'E.withdrawn %s != profile withdrawn %s'
                    % (sorted(withdrawn), sorted(run.profile.withdrawn)), None))
    if elected & set(run.profile.withdrawn):
        out.append(('withdrawn-elected', 'withdrawn candidate elected', None))
    if elected - electable:
        out.append(('unelectable-elected', 'non-electable candidates %s elected under %s' % (sorted(elected - electable), rule), None))
    # ---- 'end' action agrees
    last = run.snaps[-1] if run.snaps else None
    if last is None or last.tag != 'end':
        out.append(('no-end-action', 'last non-log action is %s' % (last.tag if last else None), None))
    else:
        e_end = {cid for cid, c in last.cands.items() if c.state == 'elected'}
        d_end = {cid for cid, c in last.cands.items() if c.state == 'defeated'}
        if e_end != elected or d_end != defeated:
            out.append(('end-action-disagrees', "'end' action shows elected %s defeated %s, election object %s / %s"
                        % (sorted(e_end), sorted(d_end), sorted(elected), sorted(defeated)), None))
    return out


def kf_underflow(run):
    """
    mechanism of the known finding: parametric meek/warren under guarded arithmetic with guard digits
    (round='up' ignored) truncates an elected candidate's keep factor to zero, its tally becomes zero and
    the next keep-factor update divides by it
    """
    import traceback
    if not isinstance(run.error, ZeroDivisionError) or run.E is None or run.cfg is None:
        return False
    if run.E.rule.name not in ('meek', 'warren') or run.cfg.kind != 'guarded' or run.cfg.guard == 0:
        return False
    names = [fr.name for fr in traceback.extract_tb(run.error.__traceback__)]
    if 'iterate' not in names or names[-1] != 'div':
        return False
    return any(c.state == 'elected' and c.kf is not None and c.kf._value == 0 for c in run.E.C)


def truncated_kf_overelects(run):
    """
    mechanism of the known finding: parametric meek/warren under guarded arithmetic with guard digits ignores round='up', so the
    truncated keep factor of an elected candidate leaves its tally below the quota by more than the comparison tolerance; the
    difference pushes two hopeful candidates over the quota at once and more candidates are elected than there are seats
    """
    if not isinstance(run.error, AssertionError) or run.E is None or run.cfg is None or not run.snaps:
        return False
    if run.E.rule.name not in ('meek', 'warren') or run.cfg.kind != 'guarded' or run.cfg.guard == 0:
        return False
    last = run.snaps[-1]
    elected = [c for c in last.cands.values() if c.state == 'elected']
    if len(elected) <= run.E.nSeats:
        return False
    return any(c.kf is not None and c.kf < run.cfg.of_int(1) and last.quota - c.vote >= run.cfg.geps for c in elected)


def carve_out(opts):
    return opts['rule'] in ('meek', 'warren') and opts.get('arithmetic') == 'rational'


def nontrivial(run):
    excl = any(e.tag == 'defeat' and 'remaining' not in e.msg.lower() for e in run.events)
    byq = any(e.tag == 'elect' and 'remaining' not in e.msg.lower() and 'Elect all' not in e.msg for e in run.events)
    return excl and byq


def exit_path(run):
    tags = [e for e in run.events if e.tag != 'log']
    msgs = [e.msg for e in tags[-4:]]
    if any('Elect remaining' in m or 'Elect all' in m for m in msgs):
        return 'exit:hopeful<=seats-left'
    if any('Defeat remaining' in m for m in msgs):
        return 'exit:seats-filled'
    return 'exit:other'


def shard(ctx):
    n_min = 60 if ctx.quick else 400
    for i, rng in ctx.cases(n_min, 10 ** 9):
        if i % 8 == 3:
            # iterations that stall on rounding noise right at omega: electorates of a few thousand ballots under the Meek family
            case = stream.make_case(ctx, rng, dict(G11=1), rules=['meek-prf', 'meek-prf', 'meek-prf', 'meek', 'warren'], allow_eq=False)
            ctx.count('meek_family_mid_electorates')
        else:
            case = stream.make_case(ctx, rng, WEIGHTS, meek_rational=True, mutate_s=odd_names)
        run, opts = case.run, case.opts
        ctx.evaluated()
        if run.error is not None and run.phase == 'profile':
            ctx.count('generator_produced_invalid_profile')      # generator bug, not droop's
            ctx.notes.append('invalid profile from generator: %s | %r' % (run.error, case.blt[:200]))
            continue
        if run.timed_out:
            if carve_out(opts):
                ctx.count('not_explored:budget:' + stream.arith_tag(opts))
                continue
            ctx.count('budget_overrun_first')
            again = do_count(case.blt, opts, budget=stream.budget_for(ctx) * 20)
            if again.timed_out:
                ctx.violation('nontermination-suspected:' + opts['rule'],
                              'count exceeded %gs CPU twice (second run alone, 20x budget)' % (stream.budget_for(ctx) * 20),
                              case.replay_case())
                continue
            run = case.run = again
        vs = check(run, opts)
        ctx.count('counts_judged')
        ctx.count('rule:' + opts['rule'])
        if run.error is None:
            ctx.count('final_state_checked')
            ctx.count('withdrawn_snapshots_checked', len(run.snaps) if run.profile.withdrawn else 0)
            ctx.count('arith:' + run.cfg.describe().split()[0])
            ctx.count('family:' + case.s['family'].split(':')[0])
            ctx.count(exit_path(run))
            ctx.shape(run.events)
            if run.E.rule.name == 'mpls' and any(c.isUndeclared for c in run.E.C):
                ctx.count('mpls_with_undeclared')
                decl = len([c for c in run.E.C if c.state != 'withdrawn' and not c.isUndeclared])
                if decl < run.E.nSeats:
                    ctx.count('mpls_declared_lt_seats')
            if nontrivial(run):
                ctx.mark_nontrivial(case.hash())
            ctx.sample(stream.sample_of(case))
        for key, msg, wit in vs:
            ctx.violation(key, msg, case.replay_case(), wit)


def replay(case):
    run = stream.replay_run(case, budget=200.0)
    if run.timed_out:
        return [('nontermination-suspected:' + case['options']['rule'], 'budget exceeded on replay')]
    return [(k, m) for k, m, _ in check(run, case['options'])]
