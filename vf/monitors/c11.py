"""
C11 -- neutrality: candidate numbering is irrelevant and withdrawn means absent.
Relational monitor over two real executions: (a) a profile and its renumbering by a permutation of the ids;
(b) a profile with withdrawn candidates and the profile with those candidates deleted.
"""
from .. import stream, gen, configs
from ..harness import do_count, Guarded

ID = 'C11'
LEVEL = 'exploration'
RULE_TEXT = ('strict-ranking profiles (G1, G2, G6, G7, G10; equal ranks G8 for meek/warren) x all rules x arithmetics. (a) every candidate id is '
             'mapped through a random permutation (names, tie order, withdrawn / undeclared sets and all ballot references carried along): winners by '
             'name and final tallies by name must be equal. (b) 1-3 candidates (often ones holding many first preferences) are marked withdrawn in one '
             'profile and deleted (ids and tie order compacted) in the other: the two records must be equal by name - action sequence, messages, rounds, '
             'raw tallies, keep factors / quotients, quota, totals - after dropping the "Add withdrawn" log lines. non-trivial = the permutation moves a '
             'candidate involved in a logged tie or batch, or the withdrawn set removes a candidate holding first preferences')
ASSUMPTIONS = ['low-precision guarded arithmetic compares non-transitively: renumbered pairs whose statistics show a comparison within 10^3 of the tolerance are not evaluated']
MIN_COUNTERS = {'renumbered_pairs_compared': 300, 'withdrawn_pairs_compared': 300, 'withdrawn_with_first_preferences': 100}
WEIGHTS = dict(G1=4, G2=4, G3=1, G4=1, G6=2, G7=3, G10=3)
ANCHOR_FILES = ['droop/candidate.py', 'droop/candidates.py', 'droop/profile.py', 'droop/election.py']


def renumber(s, perm):
    "perm: dict old cid -> new cid"
    nc = s['nc']
    s2 = dict(s)
    names = [None] * nc
    for old in range(1, nc + 1):
        names[perm[old] - 1] = s['names'][old - 1]
    s2['names'] = names
    s2['tie'] = [perm[c] for c in (s['tie'] or list(range(1, nc + 1)))]
    s2['withdrawn'] = [perm[c] for c in s['withdrawn']]
    s2['undeclared'] = [perm[c] for c in s['undeclared']]
    if s.get('eq'):
        s2['lines'] = [(m, [[perm[c] for c in g] for g in r]) for m, r in s['lines']]
    else:
        s2['lines'] = [(m, [perm[c] for c in r]) for m, r in s['lines']]
    return s2


def delete_candidates(s, W):
    "the election with the candidates in W removed from the list and from every ballot (ids compacted)"
    nc = s['nc']
    keep = [c for c in range(1, nc + 1) if c not in W]
    new = {c: i + 1 for i, c in enumerate(keep)}
    s2 = dict(s)
    s2['nc'] = len(keep)
    s2['names'] = [s['names'][c - 1] for c in keep]
    s2['tie'] = [new[c] for c in (s['tie'] or list(range(1, nc + 1))) if c in new]
    s2['withdrawn'] = [new[c] for c in s['withdrawn'] if c in new]
    s2['undeclared'] = [new[c] for c in s['undeclared'] if c in new]
    lines = []
    for m, r in s['lines']:
        if s.get('eq'):
            rr = [[new[c] for c in g if c in new] for g in r]
            rr = [g for g in rr if g]
        else:
            rr = [new[c] for c in r if c in new]
        if rr:
            lines.append((m, rr))
    s2['lines'] = lines
    return s2


def by_name_final(run):
    names = {c.cid: c.name for c in run.E.C}
    last = run.snaps[-1]
    winners = sorted(names[c.cid] for c in run.E.elected)
    tallies = {names[cid]: (c.state, c.vote, c.kf, c.quotient) for cid, c in last.cands.items() if c.state != 'withdrawn'}
    return winners, tallies


def by_name_record(run, drop):
    "history by candidate name, without 'Add withdrawn' log lines and without the dropped names"
    names = {c.cid: c.name for c in run.E.C}
    out = []
    for e in run.events:
        if not e.has_snap:
            if e.msg.startswith('Add withdrawn: '):
                continue
            out.append((e.tag, e.msg, e.round))
            continue
        cs = tuple(sorted((names[cid], c.astuple()) for cid, c in e.cands.items() if names[cid] not in drop))
        out.append((e.tag, e.msg, e.round, cs, e.exhausted, e.residual, e.surplus, e.quota, e.votes))
    return out


def near_tolerance(cfg):
    if cfg.kind != 'guarded' or cfg.geps <= 1:
        return False
    return Guarded.maxDiff * 1000 > cfg.geps or Guarded.minDiff < cfg.geps * 1000


def shard(ctx):
    n_min = 40 if ctx.quick else 400
    for i, rng in ctx.cases(n_min, 10 ** 9):
        opts = configs.random_config(rng, meek_rational=False)
        if opts.get('arithmetic') == 'rational' and opts['rule'] in ('meek', 'warren'):
            opts['arithmetic'] = 'fixed'
            opts['precision'] = 6
        fam = dict(G8=1) if (opts['rule'] in ('meek', 'warren') and rng.random() < 0.2) else WEIGHTS
        s = gen.pick(rng, fam, (not ctx.quick) and rng.random() < 0.2)
        b = stream.budget_for(ctx)
        if i % 2 == 0:
            # ---------------------------------------------------- (a) renumbering
            ids = list(range(1, s['nc'] + 1))
            sh = list(ids)
            rng.shuffle(sh)
            perm = dict(zip(ids, sh))
            if s['tie'] is None:
                s['tie'] = list(ids)
            t1, t2 = gen.render(s), gen.render(renumber(s, perm))
            both_first = rng.random() < 0.15
            if both_first:
                # a caller comparing two presentations may build both elections before counting either
                ctx.count('pairs_with_both_elections_built_first')
            r1 = do_count(t1, opts, budget=b, construct_also=t2 if both_first else None)
            near = near_tolerance(r1.cfg) if r1.cfg else False
            r2 = do_count(t2, opts, budget=b, construct_also=t1 if both_first else None)
            near = near or (near_tolerance(r2.cfg) if r2.cfg else False)
            ctx.evaluated()
            case = dict(kind='renumber', blt=t1, blt2=t2, options=opts, perm=perm, both_first=both_first)
            if r1.timed_out or r2.timed_out:
                ctx.count('not_explored:budget')
                continue
            if (r1.error is None) != (r2.error is None):
                ctx.violation('renumbering-changes-failure', 'one numbering raises (%r), the other does not (%r)' % (r1.error, r2.error), case)
                continue
            if r1.error is not None:
                ctx.count('both_raise')
                continue
            if near:
                ctx.count('not_evaluated:near_tolerance')
                continue
            ctx.count('renumbered_pairs_compared')
            w1, f1 = by_name_final(r1)
            w2, f2 = by_name_final(r2)
            if w1 != w2:
                ctx.violation('renumbering-changes-winners', 'winners %s become %s after renumbering %s under %s' % (w1, w2, perm, configs.describe(opts)), case)
            elif f1 != f2:
                d = [n for n in f1 if f1[n] != f2.get(n)]
                ctx.violation('renumbering-changes-final-tallies', 'final state of %s differs after renumbering: %s vs %s under %s'
                              % (d[:3], [f1[n] for n in d[:3]], [f2.get(n) for n in d[:3]], configs.describe(opts)), case)
            moved = any(perm[c] != c for c in ids)
            interesting = any(e.tag == 'tie' for e in r1.events) or _has_batch(r1)
            if moved and interesting:
                ctx.mark_nontrivial('a:' + gen.canon_hash(s, configs.describe(opts) + repr(sh)))
            ctx.sample(dict(kind='renumber', blt=t1[:300], perm=perm, options=opts, winners=w1), keep=1)
        else:
            # ---------------------------------------------------- (b) withdrawn == deleted
            nc = s['nc']
            firsts = {}
            for m, r in s['lines']:
                if r:
                    top = r[0][0] if s.get('eq') else r[0]
                    firsts[top] = firsts.get(top, 0) + m
            pool = [c for c in range(1, nc + 1)]
            k = rng.randint(1, min(3, nc - 1))
            if rng.random() < 0.6 and firsts:
                W = set(rng.sample(sorted(firsts), min(k, len(firsts))))
            else:
                W = set(rng.sample(pool, k))
            sW = dict(s)
            sW['withdrawn'] = sorted(W)
            sW['undeclared'] = list(s['undeclared'])
            sW = gen.make_valid(dict(sW, lines=list(s['lines'])), rng)
            W = set(sW['withdrawn'])
            sD = delete_candidates(sW, W)
            if sD['nc'] < 1 or not sD['lines']:
                continue
            t1, t2 = gen.render(sW), gen.render(sD)
            both_first = rng.random() < 0.15
            if both_first:
                ctx.count('pairs_with_both_elections_built_first')
            r1 = do_count(t1, opts, budget=b, construct_also=t2 if both_first else None)
            r2 = do_count(t2, opts, budget=b, construct_also=t1 if both_first else None)
            ctx.evaluated()
            case = dict(kind='withdrawn', blt=t1, blt2=t2, options=opts, withdrawn=sorted(W), both_first=both_first)
            if r1.timed_out or r2.timed_out:
                ctx.count('not_explored:budget')
                continue
            if r1.phase == 'profile' or r2.phase == 'profile':
                if (r1.error is None) != (r2.error is None):
                    ctx.violation('withdrawn-vs-deleted-acceptance', 'profile with withdrawn candidates: %r; with them deleted: %r' % (r1.error, r2.error), case)
                continue
            if (r1.error is None) != (r2.error is None):
                ctx.violation('withdrawn-vs-deleted-failure', 'withdrawn: %r, deleted: %r' % (r1.error, r2.error), case)
                continue
            if r1.error is not None:
                ctx.count('both_raise')
                continue
            ctx.count('withdrawn_pairs_compared')
            drop = {sW['names'][c - 1] for c in W}
            h1, h2 = by_name_record(r1, drop), by_name_record(r2, set())
            if h1 != h2:
                kx = next((j for j, (x, y) in enumerate(zip(h1, h2)) if x != y), min(len(h1), len(h2)))
                x = h1[kx] if kx < len(h1) else None
                y = h2[kx] if kx < len(h2) else None
                ctx.violation('withdrawn-not-absent', 'record with %s withdrawn differs from the record with them deleted at step %d: %r vs %r under %s'
                              % (sorted(drop), kx, x[:3] if x else None, y[:3] if y else None, configs.describe(opts)), case)
            elif r1.E.nBallots != r2.E.nBallots or r1.E.nSeats != r2.E.nSeats:
                ctx.violation('withdrawn-not-absent:totals', 'ballot totals %s vs %s' % (r1.E.nBallots, r2.E.nBallots), case)
            if any(c in firsts for c in W):
                ctx.count('withdrawn_with_first_preferences')
                ctx.mark_nontrivial('b:' + gen.canon_hash(sW, configs.describe(opts)))
            ctx.sample(dict(kind='withdrawn-vs-deleted', withdrawn_text=t1[:300], deleted_text=t2[:300], options=opts), keep=1)


def _has_batch(run):
    prev = None
    for e in run.snaps:
        if e.tag == 'defeat' and prev is not None and prev.tag == 'defeat' and 'remaining' not in e.msg.lower():
            return True
        prev = e
    return False


def replay(case):
    bf = case.get('both_first')
    r1 = do_count(case['blt'], case['options'], budget=60, construct_also=case['blt2'] if bf else None)
    r2 = do_count(case['blt2'], case['options'], budget=60, construct_also=case['blt'] if bf else None)
    if r1.timed_out or r2.timed_out:
        return []
    if (r1.error is None) != (r2.error is None):
        return [('one-side-raises', '%r vs %r' % (r1.error, r2.error))]
    if r1.error is not None:
        return []
    if case['kind'] == 'renumber':
        a, b = by_name_final(r1), by_name_final(r2)
        return [] if a == b else [('renumbering-changes-outcome', '%s vs %s' % (a[0], b[0]))]
    names = {c.cid: c.name for c in r1.E.C}
    drop = {names[c] for c in case['withdrawn']}
    a, b = by_name_record(r1, drop), by_name_record(r2, set())
    return [] if a == b else [('withdrawn-not-absent', 'records differ')]
