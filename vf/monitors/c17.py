"""
C17 -- option precedence holds, and statutory rules cannot be reconfigured.
(a) layer assignments enumerated per option name and rule: effective value, recorded layers, observable effect,
    report header lines; (b) relational: statutory counts under junk options from the caller, the ballot file or both.
"""
import itertools, re
from .. import stream, gen, configs
from ..harness import do_count, Election, ElectionProfile, UsageError, Fixed, Guarded, Rational

ID = 'C17'
LEVEL = 'exploration'
RULE_TEXT = ('(a) for every rule name and every option name in {arithmetic, precision, guard, display, omega, integer_quota, defeat_batch, quota, '
             'zzz} every assignment of {absent, v1, v2} to the ballot-file layer ([droop ...], parsed from text) and the caller layer is enumerated '
             '(values the rule accepts; this enumeration is complete; caller values are supplied both as Python values and as name=value words through Options.parse, as the command line does): the effective value must be forced > caller > file > default, the record must '
             'report the layers as supplied, the arithmetic class / rule attribute must show the effective value, and the report header must list '
             'undeclared supplied options as unused and replaced ones as overridden. (b) statutory rules are counted with and without random junk '
             'assignments of the same option names (valid and invalid values, bare rule / arithmetic names) from the caller, from [droop ...], or both: '
             'action list, raw snapshots, dump and winners must be identical. non-trivial = assignment with values in both layers, or a junk set touching '
             '>= 3 option names')
ASSUMPTIONS = ['which options each rule / arithmetic declares and forces is transcribed from the rules\' help texts and options() methods (table in this module)',
               'an assignment the constructor refuses with UsageError is outside the claim and only counted']
MIN_COUNTERS = {'main_selector_runs': 30, 'options_object_assignments': 200, 'layer_assignments_checked': 800, 'assignments_with_both_layers': 350, 'immunity_pairs_compared': 300, 'report_headers_checked': 800}
ANCHOR_FILES = ['droop/options.py', 'droop/election.py', 'droop/values/__init__.py']

FORCED = {
    'scotland': dict(arithmetic='fixed', precision=5, display=5),
    'mpls': dict(arithmetic='fixed', precision=4, display=4),
    'wigm-prf': dict(arithmetic='fixed', precision=4, display=4),
    'wigm-prf-batch': dict(arithmetic='fixed', precision=4, display=4),
    'cfer': dict(arithmetic='fixed', precision=5, display=5),
    'cfer-batch': dict(arithmetic='fixed', precision=5, display=5),
    'meek-prf': dict(arithmetic='fixed', precision=9, display=9, omega=6),
    'qpq': dict(arithmetic='guarded', precision=9, guard=9, display=9),
}
NAMES = ['arithmetic', 'precision', 'guard', 'display', 'omega', 'integer_quota', 'defeat_batch', 'quota', 'zzz']
PROFILE = '4 2 %s 4 1 2 0 3 2 1 0 2 3 4 0 2 4 3 0 1 2 0 0 "Ada" "Ben" "Cy" "Dot" "T"'


def values_for(rule, name):
    "two values the rule accepts for the option (as the caller would pass them)"
    if name == 'arithmetic':
        return ['fixed', 'rational'] if rule in ('wigm', 'meek', 'warren') or rule in FORCED else ['fixed', 'guarded']
    if name == 'precision':
        return [6, 8]
    if name == 'guard':
        return [0, 4]
    if name == 'display':
        return [2, 5]
    if name == 'omega':
        return [3, 4]
    if name == 'integer_quota':
        return [True, False]
    if name == 'defeat_batch':
        return ['none', 'zero'] if rule == 'wigm' else (['none', 'safe'] if rule in ('meek', 'warren') else ['zero', 'safe'])
    return ['hare', 'x9']


def as_file_token(name, v):
    if v is True:
        return '%s=%s' % (name, 'true')
    if v is False:
        return '%s=%s' % (name, 'no')
    return '%s=%s' % (name, v)


def declared(rule, arith):
    "option names the rule and its arithmetic declare (a supplied option outside this set is 'unused')"
    if rule in FORCED:
        d = set(FORCED[rule]) | {'display'}
        return d
    d = {'arithmetic', 'defeat_batch'}
    if rule == 'wigm':
        d.add('integer_quota')
    else:
        d.add('omega') if arith in ('guarded', 'fixed', 'rational') else None
    if arith == 'guarded':
        d |= {'precision', 'guard', 'display'}
    elif arith in ('fixed', 'integer'):
        d |= {'precision', 'display'}
    elif arith == 'rational':
        d |= {'display'}
    return d


def header_list(report, label):
    "the names listed under a header line; found by its label, or (should the label be reworded) by its key word"
    m = re.search(r'^\t%s: (.*)$' % re.escape(label), report, re.M)
    if m is None:
        word = label.split()[0].lower()[1:]        # 'nused' / 'verridden'
        m = re.search(r'^\t[^:\n]*%s[^:\n]*: (.*)$' % re.escape(word), report, re.M | re.I)
    return None if m is None else m.group(1).split(', ')


SEQ = [0, 0]


def check_assignment(ctx, rule, name, fv, cv, base=None, cli=False, as_object=False):
    "fv / cv: value in the file layer / caller layer or None; base: extra caller options (the arithmetic under which the name is exercised)"
    file_tokens = [as_file_token(name, fv)] if fv is not None else []
    text = PROFILE % ('[droop %s]' % ' '.join(file_tokens) if file_tokens else '')
    caller = dict(rule=rule)
    SEQ[0] += 1
    file_base = bool(base) and fv is not None and name not in base and SEQ[0] % 3 == 0
    if file_base:
        # the same assignment with the accompanying options written in the ballot file too, as a [droop ...] item of their own
        # ahead of the one under test (a file may carry any number of such items; together they are the file layer)
        text = PROFILE % ('[droop %s] [droop %s]' % (' '.join(as_file_token(k, v) for k, v in base.items()), ' '.join(file_tokens)))
        ctx.count('assignments_with_two_droop_items')
    else:
        caller.update(base or {})
    if cv is not None:
        caller[name] = cv
    if as_object:
        ctx.count('options_object_assignments')
    if cli:
        # the command-line layer: the same assignment as Droop.py receives it, as name=value words parsed by Options.parse
        from droop.options import Options
        words = [as_file_token(k, v) for k, v in caller.items()]
        caller = Options.parse(words)
        ctx.count('cli_layer_assignments')
    case = dict(kind='layers', blt=text, options=dict(caller), name=name, rule=rule, base=base)
    ctx.evaluated()
    if as_object:
        # the caller may hand over an Options object instead of a dict (Election accepts both)
        from droop.options import Options
        SEQ[1] += 1
        if SEQ[1] % 3 == 1:
            oo = Options(dict(caller))
        else:
            oo = Options()              # built up piecemeal, as a long-lived caller would
            for k, v in caller.items():
                oo.update(k, v)
            ctx.count('options_objects_built_incrementally')
            if SEQ[1] % 3 == 2 and file_tokens and not file_base:
                # ... including the ballot-file layer, filled through update(name, value, file_options=True) instead of [droop] text
                text = PROFILE % ''
                oo.update(name, fv, file_options=True)
                ctx.count('file_layer_filled_through_update')
        run = do_count(text, None, budget=5.0, render=True, options_object=oo)
    else:
        run = do_count(text, dict(caller), budget=5.0, render=True)
    if run.error is not None:
        if isinstance(run.error, UsageError):
            ctx.count('assignment_refused_by_constructor')
            # a refusal must be about the value that takes effect: if the caller alone supplying that value is accepted, a value
            # shadowed in a lower layer cannot be a reason to refuse
            eff = cv if cv is not None else fv
            if fv is not None and cv is not None and not cli and not as_object:
                alone = dict(rule=rule)
                alone.update(base or {})
                alone[name] = eff
                r2 = do_count(PROFILE % '', alone, budget=5.0)
                ctx.count('refusals_compared_with_the_effective_value_alone')
                if r2.error is None and not r2.timed_out:
                    ctx.violation('precedence:shadowed-value-refused', 'rule %s: %s=%r from the caller is accepted on its own, but with %s=%r in the ballot file '
                                  '(overridden by the caller) the election is refused: %s' % (rule, name, cv, name, fv, run.error), case)
            return
        ctx.violation('layers:raises:%s' % type(run.error).__name__, 'rule %s with %s=%r (file %r) raised %r in %s'
                      % (rule, name, cv, fv, run.error, run.phase), case)
        return
    if run.timed_out:
        ctx.count('not_explored:budget')
        return
    E = run.E
    ctx.count('layer_assignments_checked')
    if fv is not None and cv is not None:
        ctx.count('assignments_with_both_layers')
        ctx.mark_nontrivial('%s/%s/%r/%r/%r' % (rule, name, fv, cv, base))
    forced = FORCED.get(rule, {})
    eff_arith = forced.get('arithmetic') or (cv if name == 'arithmetic' and cv is not None else (fv if name == 'arithmetic' and fv is not None else E.options.default.get('arithmetic')))
    if (base or {}).get('arithmetic') == 'integer':
        eff_arith = 'integer'
    if eff_arith == 'integer':
        forced = dict(forced, precision=0)
    if name in forced:
        want = forced[name]
    elif cv is not None:
        want = cv
    elif fv is not None:
        want = fv
    else:
        want = E.options.default.get(name)
    got = E.options.getopt(name)
    if got != want:
        ctx.violation('precedence:effective-value', 'rule %s option %s: file=%r caller=%r forced=%r -> effective %r, expected %r'
                      % (rule, name, fv, cv, forced.get(name), got, want), case)
    rec = E.record().get('options')
    if rec is None:
        ctx.violation('precedence:record-missing', 'record has no options entry', case)
        return
    want_cmd = {k: (int(v) if isinstance(v, str) and v.isdigit() else v) for k, v in caller.items()}
    want_file = {name: fv} if fv is not None else {}
    if file_base:
        want_file.update({k: (int(v) if isinstance(v, str) and v.isdigit() else v) for k, v in base.items()})
    if rec['cmd'] != want_cmd:
        ctx.violation('precedence:record-cmd-layer', 'record cmd layer %r, supplied %r' % (rec['cmd'], want_cmd), case)
    if rec['file_options'] != want_file:
        ctx.violation('precedence:record-file-layer', 'record file layer %r, supplied %r' % (rec['file_options'], want_file), case)
    if rec['options'].get(name) != want:
        ctx.violation('precedence:record-effective', 'record effective %s=%r, expected %r' % (name, rec['options'].get(name), want), case)
    for k, v in FORCED.get(rule, {}).items():
        if rec['force'].get(k) != v:
            ctx.violation('precedence:record-force-layer', 'record force layer lacks %s=%r (has %r)' % (k, v, rec['force'].get(k)), case)
    # ---- observable effect
    V = E.V
    eff = {k: E.options.getopt(k) for k in ('arithmetic', 'precision', 'guard', 'display', 'omega')}
    kind = {'fixed': Fixed, 'integer': Fixed, 'guarded': Guarded, 'rational': Rational}.get(eff['arithmetic'])
    if V is not kind:
        ctx.violation('effect:arithmetic-class', 'effective arithmetic %r but the count used %s' % (eff['arithmetic'], V.__name__), case)
    else:
        if V is not Rational and V.precision != eff['precision']:
            ctx.violation('effect:precision', 'effective precision %r but the arithmetic runs with %r' % (eff['precision'], V.precision), case)
        if V is Guarded and V.guard != eff['guard']:
            ctx.violation('effect:guard', 'effective guard %r but the arithmetic runs with %r' % (eff['guard'], V.guard), case)
        d = eff['display']
        if V is Fixed:
            dexp = d if 0 <= d <= V.precision else V.precision
            if V.display != dexp:
                ctx.violation('effect:display', 'effective display %r (precision %r) but Fixed displays %r' % (d, V.precision, V.display), case)
        elif V is Guarded:
            if V.display != min(d, V.precision + V.guard):
                ctx.violation('effect:display', 'effective display %r but Guarded displays %r' % (d, V.display), case)
        elif V.dp != d:
            ctx.violation('effect:display', 'effective display %r but Rational displays %r' % (d, V.dp), case)
    if rule in ('meek', 'warren', 'meek-prf') and E.rule.omega10 != eff['omega']:
        ctx.violation('effect:omega', 'effective omega %r but the rule iterates to 10^-%r' % (eff['omega'], E.rule.omega10), case)
    if rule == 'wigm':
        if E.rule.integer_quota != E.options.getopt('integer_quota') or E.rule.defeat_batch != E.options.getopt('defeat_batch'):
            ctx.violation('effect:wigm-attributes', 'rule attributes differ from the effective options', case)
    if rule in ('meek', 'warren') and E.rule.defeat_batch != E.options.getopt('defeat_batch'):
        ctx.violation('effect:meek-attributes', 'rule attributes differ from the effective options', case)
    # ---- report header
    ctx.count('report_headers_checked')
    supplied = dict(base or {})
    if fv is not None:
        supplied[name] = fv
    if cv is not None:
        supplied[name] = cv
    dec = declared(rule, eff['arithmetic'])
    want_unused = sorted(k for k in supplied if k not in dec)
    want_over = sorted(k for k, v in supplied.items() if k in forced and forced[k] != v)
    got_unused = header_list(run.report, 'Unused options') or []
    got_over = header_list(run.report, 'Overridden options') or []
    if got_unused != want_unused:
        ctx.violation('report:unused-options', 'rule %s (%s): supplied %r, report lists unused %r, expected %r'
                      % (rule, eff['arithmetic'], supplied, got_unused, want_unused), case)
    if got_over != want_over:
        ctx.violation('report:overridden-options', 'rule %s: supplied %r, forced %r, report lists overridden %r, expected %r'
                      % (rule, supplied, {k: forced[k] for k in supplied if k in forced}, got_over, want_over), case)
    ctx.sample(dict(kind='layers', rule=rule, option=name, file=fv, caller=cv, effective=got, unused=got_unused, overridden=got_over), keep=2)


JUNK = {
    'arithmetic': ['rational', 'integer', 'guarded', 'fixed', 'bogus'],
    'precision': [2, 30, 'x', -1, 0, '7'],
    'guard': [0, 3, 'g'],
    'display': [0, 3, 30],
    'omega': [2, 12, 'w'],
    'integer_quota': [True, 'true', 'maybe'],
    'defeat_batch': ['zero', 'none', 'safe', 'all'],
    'quota': ['hare', 'droop'],
    'zzz': [1, 'q'],
}
BARE = ['rational', 'integer', 'fixed', 'guarded', 'meek', 'wigm', 'qpq', 'dump', 'report', 'json', 'somefile.blt']


def immunity(ctx, rng):
    rule = rng.choice(configs.STATUTORY)
    s = gen.pick(rng, dict(G1=3, G2=2, G3=2, G4=3, G10=1), False)
    names = rng.sample(NAMES, rng.randint(1, 5))
    where = rng.choice(['caller', 'file', 'both'])
    caller = dict(rule=rule)
    ftoks = []
    for n in names:
        if where in ('caller', 'both') and rng.random() < 0.8:
            caller[n] = rng.choice(JUNK[n])
        if where in ('file', 'both') and rng.random() < 0.8:
            ftoks.append(as_file_token(n, rng.choice(JUNK[n])))
    if where != 'caller' and rng.random() < 0.4:
        ftoks.append(rng.choice(BARE))
    s2 = dict(s, options=ftoks)
    t0, t1 = gen.render(s), gen.render(s2)
    b = stream.budget_for(ctx)
    r0 = do_count(t0, dict(rule=rule), budget=b, render=True)
    r1 = do_count(t1, dict(caller), budget=b, render=True)
    ctx.evaluated()
    case = dict(kind='immunity', blt=t0, blt2=t1, options=dict(caller), rule=rule)
    if r0.timed_out or r1.timed_out or r0.error is not None:
        ctx.count('pair_not_usable')
        return
    if r1.error is not None:
        ctx.violation('immunity:junk-options-raise:%s' % type(r1.error).__name__,
                      '%s with junk options %r / [droop %s] raised %r' % (rule, {k: v for k, v in caller.items() if k != 'rule'}, ' '.join(ftoks), r1.error), case)
        return
    ctx.count('immunity_pairs_compared')
    ctx.count('immunity:' + where)
    a = [e.astuple() for e in r0.events]
    bb = [e.astuple() for e in r1.events]
    if a != bb:
        k = next((i for i, (x, y) in enumerate(zip(a, bb)) if x != y), min(len(a), len(bb)))
        ctx.violation('immunity:count-changed', '%s count changes at action %d under junk options %r / [droop %s]'
                      % (rule, k, {k2: v for k2, v in caller.items() if k2 != 'rule'}, ' '.join(ftoks)), case)
    elif r0.dump != r1.dump:
        ctx.violation('immunity:dump-changed', '%s dump changes under junk options' % rule, case)
    elif sorted(c.name for c in r0.E.elected) != sorted(c.name for c in r1.E.elected):
        ctx.violation('immunity:winners-changed', '%s winners change under junk options' % rule, case)
    if len(names) >= 3:
        ctx.mark_nontrivial(gen.canon_hash(s, rule + repr(sorted(caller.items(), key=repr)) + ' '.join(ftoks)))
    ctx.sample(dict(kind='immunity', rule=rule, caller={k: v for k, v in caller.items() if k != 'rule'}, droop=ftoks), keep=2)


def main_selectors(ctx):
    "Droop.main: the report / dump / json selectors obey the same precedence (caller > ballot file > default report only)"
    import os, io, tempfile, contextlib, importlib.util
    from ..harness import REPO
    spec = importlib.util.spec_from_file_location('Droop_cli_c17', os.path.join(REPO, 'Droop.py'))
    cli = importlib.util.module_from_spec(spec)
    spec.loader.exec_module(cli)
    out = os.path.join(os.path.dirname(os.path.dirname(os.path.dirname(os.path.abspath(__file__)))), 'out')
    default = dict(report=True, dump=False, json=False)
    combos = []
    for ftoks in ([], ['dump'], ['json'], ['dump', 'json'], ['report=false'], ['report=false', 'dump'], ['json=true', 'dump=no']):
        for cmd in ({}, {'dump': True}, {'json': True}, {'report': False}, {'dump': False}, {'report': True, 'json': False}):
            combos.append((ftoks, cmd))
    for k, (ftoks, cmd) in enumerate(combos):
        if k % ctx.nshards != ctx.shard:
            continue
        text = PROFILE % ('[droop %s]' % ' '.join(ftoks) if ftoks else '')
        fd, path = tempfile.mkstemp(suffix='.blt', dir=out)
        try:
            with os.fdopen(fd, 'w') as f:
                f.write(text)
            opts = dict(rule='scotland', path=path)
            opts.update(cmd)
            with contextlib.redirect_stdout(io.StringIO()):
                try:
                    res = cli.main(dict(opts))
                except Exception as e:      # pylint: disable=broad-except
                    ctx.violation('main-raises:%s' % type(e).__name__, 'Droop.main raised %r with [droop %s] and caller %r' % (e, ' '.join(ftoks), cmd),
                                  dict(kind='main', blt=text, options=cmd))
                    continue
        finally:
            os.unlink(path)
        ctx.count('main_selector_runs')
        ctx.evaluated()
        from droop.options import Options
        fileopts = Options.parse(ftoks)
        want = {}
        for sel in ('report', 'dump', 'json'):
            want[sel] = cmd.get(sel, fileopts.get(sel, default[sel]))
        got = dict(report='\nElection: ' in res, dump='R\tAction\tQuota' in res, json='"actions": [' in res)
        if got != want:
            ctx.violation('main-output-selectors', 'Droop.main with [droop %s] and caller options %r produced %s, precedence says %s'
                          % (' '.join(ftoks), cmd, {k2: v for k2, v in got.items() if v}, {k2: v for k2, v in want.items() if v}),
                          dict(kind='main', blt=text, options=cmd))


def all_assignments():
    out = []
    for rule in configs.ALL_RULES:
        for name in NAMES:
            vals = values_for(rule, name)
            bases = [None]
            if rule in ('wigm', 'meek', 'warren') and name != 'arithmetic':
                bases = [None, dict(arithmetic='fixed', precision=7), dict(arithmetic='rational')]
                if name == 'precision':
                    bases = [None, dict(arithmetic='fixed'), dict(arithmetic='rational')]
                if rule == 'wigm' and name in ('precision', 'display', 'guard'):
                    bases = bases + [dict(arithmetic='integer')]       # integer arithmetic forces precision 0 whatever is supplied
            for base in bases:
                for fv, cv in itertools.product([None] + vals, repeat=2):
                    out.append((rule, name, fv, cv, base))
    # a value the rule would refuse, written in the ballot file but overridden by an acceptable one from the caller: what takes effect
    # is the caller's value, so the election is set up with it
    for rule, bad, good in (('wigm', ['safe', 'maybe'], ['none', 'zero']), ('meek', ['zero', 'maybe'], ['none', 'safe']), ('warren', ['zero', 'maybe'], ['none', 'safe'])):
        for fv in bad:
            for cv in good:
                out.append((rule, 'defeat_batch', fv, cv, None))
    for fv in ('maybe', 'x'):
        for cv in (True, False):
            out.append(('wigm', 'integer_quota', fv, cv, None))
    return out


def shard(ctx):
    allas = all_assignments()
    for i, (rule, name, fv, cv, base) in enumerate(allas):
        if i % ctx.nshards == ctx.shard:
            check_assignment(ctx, rule, name, fv, cv, base)
            if cv is not None:
                check_assignment(ctx, rule, name, fv, cv, base, cli=True)
            if i % 3 == 0:
                check_assignment(ctx, rule, name, fv, cv, base, as_object=True)
    ctx.count('assignment_enumeration_complete_shards')
    main_selectors(ctx)
    n_min = 20 if ctx.quick else 300
    for i, rng in ctx.cases(n_min, 10 ** 9):
        immunity(ctx, rng)


def replay(case):
    from ..engine import Ctx
    ctx = Ctx('C17', 'quick', 0, 0, 1, 60)
    if case['kind'] == 'layers':
        opts = case['options']
        name = case['name']
        cv = opts.get(name)
        m = re.search(r'\[droop %s=(\S+)\]' % re.escape(name), case['blt'])
        fv = None
        if m:
            raw = m.group(1)
            fv = True if raw == 'true' else False if raw == 'no' else (int(raw) if raw.isdigit() else raw)
        check_assignment(ctx, case['rule'], name, fv, cv, case.get('base'))
    elif case['kind'] == 'main':
        main_selectors(ctx)
    else:
        r0 = do_count(case['blt'], dict(rule=case['rule']), budget=60, render=True)
        r1 = do_count(case['blt2'], case['options'], budget=60, render=True)
        if r1.error is not None:
            return [('immunity:junk-options-raise', repr(r1.error))]
        if [e.astuple() for e in r0.events] != [e.astuple() for e in r1.events] or r0.dump != r1.dump:
            return [('immunity:count-changed', 'records differ')]
    return [(v['key'], v['msg']) for v in ctx.violations]
