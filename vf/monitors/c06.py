"""
C06 -- Gregory transfers: tallies equal ballot values; values only shrink, rounded down.
Hook invariant on live ballots (index, weight) and candidates at every recorded action of the
WIGM-family rules, plus bracketing checks across each surplus / exclusion transfer.
"""
from fractions import Fraction
from .. import stream, configs
from ..harness import action_name

ID = 'C06'
LEVEL = 'exploration'
RULE_TEXT = ('strict-ranking profiles (G4 chains weighted x5: the same ballots re-weighted 3-6 times) x the seven Gregory-family '
             'rule names x every arithmetic wigm accepts; at every recorded action the live ballots (position, raw weight) and '
             'candidates are compared: tally == sum of standing ballot values (exact), no ballot passes over a hopeful candidate '
             'or stands on a candidate already transferred, weights in [0,1] and non-increasing; across each surplus transfer '
             'every re-weighted ballot is in (w*s/v - 2ulp, w*s/v], untouched ballots are unchanged and the elected tally equals '
             'the quota; across each exclusion transfer no weight changes. non-trivial = some ballot line re-weighted >= 3 times; '
             'distinct = distinct (structure, configuration) hashes')
ASSUMPTIONS = ['"stands with the first candidate not yet transferred" is checked as: no earlier-ranked candidate is hopeful and the '
               'current one has not had its papers transferred (transfer() legitimately skips elected-pending candidates)',
               'which candidates a transfer action moves is read from the record itself (the unpend / elect action before a surplus '
               'transfer; the names in a "Transfer defeated:" message)']
MIN_COUNTERS = {'counts_judged': 200, 'tally_equalities_checked': 5000, 'surplus_transfers_checked': 300,
                'exclusion_transfers_checked': 300, 'reweighted_ballots_checked': 1000}
WEIGHTS = dict(G1=3, G2=1, G3=3, G4=6, G4b=2, G5=1, G6=2, G7=2, G9=1, G10=1)
ANCHOR_FILES = ['droop/rules/wigm.py', 'droop/rules/wigm_prf.py', 'droop/rules/cfer.py', 'droop/rules/scotland.py',
                'droop/rules/mpls.py', 'droop/election.py', 'droop/values/fixed.py']


def check(run):
    out = []
    st = dict(tally_eq=0, surplus=0, excl=0, reweighted=0, max_reweights=0, untouched=0)
    E, cfg = run.E, run.cfg
    rule = E.rule.name
    scale = cfg.scale
    one = cfg.of_int(1)
    mults = [m // scale if scale != 1 else int(m) for m in run.mults]      # integer multipliers
    rankings = run.rankings
    name2cid = {c.name: c.cid for c in E.C}
    nreweights = [0] * len(rankings)
    transferred = set()         # candidates whose papers have been moved on by a recorded transfer
    pending_surplus = None      # candidate un-pended (or mpls-elected) and awaiting the transfer action
    prev = None

    def bad(key, msg, ev):
        out.append((key, '%s at action %d (%s: %s) under %s %s' % (msg, ev.idx, ev.tag, ev.msg, rule, cfg.describe()), dict(action=ev.idx)))

    for ev in run.snaps:
        if ev.ballots is None or ev.exhausted is None:
            prev = ev
            continue
        cands = ev.cands
        # ---- (a) tally == sum of the values of the ballots standing on the candidate
        standing = {}
        for bi, (idx, w, _res) in enumerate(ev.ballots):
            r = rankings[bi]
            # ---- (c) weight range / monotone
            if w < 0 or w > one:
                bad('weight-out-of-range', 'ballot line %d weight %s outside [0,1]' % (bi, cfg.frac(w)), ev)
            if prev is not None and prev.ballots is not None and w > prev.ballots[bi][1]:
                bad('weight-increased', 'ballot line %d weight rose from %s to %s' % (bi, prev.ballots[bi][1], w), ev)
            # ---- (b) no hopeful candidate passed over
            for j in range(min(idx, len(r))):
                if cands[r[j]].state == 'hopeful':
                    bad('ballot-skipped-hopeful', 'ballot line %d (%s) stands at position %d but ranks hopeful candidate %d earlier'
                        % (bi, list(r), idx, r[j]), ev)
                    break
            if idx < len(r):
                top = r[idx]
                standing[top] = standing.get(top, 0) + w * mults[bi]
                if top in transferred:
                    bad('ballot-on-transferred-candidate', 'ballot line %d still stands on candidate %d whose papers were transferred' % (bi, top), ev)
        for cid, c in cands.items():
            if c.state == 'hopeful' or (c.state == 'elected' and c.pending):
                st['tally_eq'] += 1
                if c.vote != standing.get(cid, 0):
                    bad('tally-not-sum-of-ballots', 'candidate %d (%s%s) tally %s != sum of standing ballot values %s'
                        % (cid, c.state, ' pending' if c.pending else '', cfg.frac(c.vote), cfg.frac(standing.get(cid, 0))), ev)
        # ---- transfers
        if ev.tag == 'unpend' and prev is not None:
            who = [cid for cid, c in cands.items() if prev.cands[cid].pending and not c.pending]
            pending_surplus = who[0] if len(who) == 1 else None
        elif ev.tag == 'elect' and rule == 'mpls' and prev is not None and 'remaining' not in ev.msg and 'threshold' not in ev.msg:
            who = [cid for cid, c in cands.items() if c.state == 'elected' and prev.cands[cid].state != 'elected']
            pending_surplus = who[0] if len(who) == 1 else None
        elif ev.tag == 'transfer' and prev is not None and prev.ballots is not None:
            if ev.msg.startswith('Transfer defeated: '):
                st['excl'] += 1
                names = action_name(ev.msg).split(', ')
                moved = [name2cid[n] for n in names if n in name2cid]
                for bi, (idx, w, _r) in enumerate(ev.ballots):
                    if w != prev.ballots[bi][1]:
                        bad('exclusion-transfer-changed-weight', 'ballot line %d weight %s -> %s across an exclusion transfer'
                            % (bi, prev.ballots[bi][1], w), ev)
                        break
                for cid in moved:
                    if cands[cid].vote != 0:
                        bad('excluded-tally-not-zero', 'excluded candidate %d keeps tally %s after its transfer' % (cid, cands[cid].vote), ev)
                    transferred.add(cid)
                pending_surplus = None
            else:
                c = pending_surplus
                pending_surplus = None
                if c is None:
                    bad('surplus-transfer-unattributed', 'transfer action not preceded by an unpend/elect of one candidate', ev)
                else:
                    st['surplus'] += 1
                    v = prev.cands[c].vote
                    q = prev.quota
                    s = v - q
                    if cands[c].vote != ev.quota or ev.quota != q:
                        bad('elected-tally-not-quota', 'candidate %d tally %s after its surplus transfer, quota %s'
                            % (c, cfg.frac(cands[c].vote), cfg.frac(ev.quota)), ev)
                    for bi, (idx, w, _r) in enumerate(ev.ballots):
                        pidx, pw, _ = prev.ballots[bi]
                        r = rankings[bi]
                        on_c = pidx < len(r) and r[pidx] == c
                        if not on_c:
                            st['untouched'] += 1
                            if w != pw or idx != pidx:
                                bad('untouched-ballot-changed', 'ballot line %d not on candidate %d changed (%s,%s)->(%s,%s) in its surplus transfer'
                                    % (bi, c, pidx, pw, idx, w), ev)
                            continue
                        st['reweighted'] += 1
                        nreweights[bi] += 1
                        # exact new value, in raw units: pw * s / v
                        x = Fraction(pw * s, v) if v else None
                        if x is None:
                            continue
                        if cfg.kind == 'rational':
                            if w != x:
                                bad('reweight-not-exact', 'rational re-weighting %s != %s' % (w, x), ev)
                        else:
                            if w > x:
                                bad('reweight-rounded-up', 'ballot line %d new weight %s raw > exact w*s/v = %s (never up)' % (bi, w, float(x)), ev)
                            elif x - w >= 2:
                                bad('reweight-lost-too-much', 'ballot line %d new weight %s raw is >= 2 ulp below exact %s' % (bi, w, float(x)), ev)
                    transferred.add(c)
        prev = ev
        if len(out) > 20:
            break
    st['max_reweights'] = max(nreweights) if nreweights else 0
    return out, st


def shard(ctx):
    n_min = 60 if ctx.quick else 400
    for i, rng in ctx.cases(n_min, 10 ** 9):
        case = stream.make_case(ctx, rng, WEIGHTS, rules=configs.GREGORY, snap_ballots=True, allow_eq=False)
        if not stream.usable(ctx, case):
            continue
        vs, st = check(case.run)
        ctx.count('tally_equalities_checked', st['tally_eq'])
        ctx.count('surplus_transfers_checked', st['surplus'])
        ctx.count('exclusion_transfers_checked', st['excl'])
        ctx.count('reweighted_ballots_checked', st['reweighted'])
        ctx.count('untouched_ballots_checked', st['untouched'])
        ctx.count('max_reweights_of_one_ballot>=%d' % min(st['max_reweights'], 6))
        if st['max_reweights'] >= 3:
            ctx.mark_nontrivial(case.hash())
        ctx.sample(stream.sample_of(case))
        for key, msg, wit in vs:
            ctx.violation(key, msg, case.replay_case(), wit)


def replay(case):
    run = stream.replay_run(case, snap_ballots=True)
    if run.E is None or not run.snaps:
        return []
    run.events = run.events[:stream.MAX_PARTIAL_EVENTS] if not run.complete else run.events
    return [(k, m) for k, m, _ in check(run)[0]]
