"""
C20 -- a count is independent of whatever was counted before it in the process.
Relational monitor over process histories: renderings of a target election after a random history of other
elections in this long-lived process must equal, byte for byte, the renderings from a fresh subprocess.
"""
import os, sys, json, io, time, contextlib, subprocess
from .. import stream, gen, configs
from ..harness import ElectionProfile, Election, REPO, cpu_budget, BudgetExceeded

ID = 'C20'
LEVEL = 'exploration'
RULE_TEXT = ('targets = (profile, rule, options) over all rules and arithmetics (fixed / integer / guarded / rational; precision, guard, display incl. '
             'display > precision, guard 0, equal precision+guard with different splits; a quarter of all elections are configured in the ballot file only and built as Election(profile) with no options argument; 8% of targets run at 4400-5200 digits). The reference report+dump+json of each target comes from a fresh '
             'subprocess that does nothing else. In one long-lived process, random histories of 1-12 other elections (constructed, counted and rendered back '
             'to back, biased to the same arithmetic class as the target with different settings) are run, then the target: its renderings must equal the '
             'reference byte for byte (a target that ends in an error in the fresh process must end in the same kind of error). Also the same ElectionProfile object is counted twice in fresh Election objects, and Droop.main is called in sequences (one reused options dict with only the path replaced; ballot files with equal timestamps presented under one path): each call must print what the same file prints on its own. non-trivial = the last election of '
             'the history used the target\'s arithmetic class with different precision / guard / display; distinct = (target, history) hashes')
ASSUMPTIONS = ['each election is constructed, counted and reported before the next is constructed (the property\'s own scope)']
MIN_COUNTERS = {'targets': 16, 'histories_compared': 100, 'same_class_different_settings': 40, 'recounts_compared': 30}
QUICK_S = 30
ANCHOR_FILES = ['droop/values/fixed.py', 'droop/values/guarded.py', 'droop/values/rational.py', 'droop/values/__init__.py', 'droop/election.py', 'droop/options.py']
ROOT = os.path.dirname(os.path.dirname(os.path.dirname(os.path.abspath(__file__))))


def any_config(rng):
    rule = rng.choice(configs.ALL_RULES + ['wigm', 'wigm', 'meek', 'warren'])
    o = dict(rule=rule)
    if rule == 'wigm':
        k = rng.random()
        if k < 0.35:
            p = rng.randint(0, 12)
            g = rng.choice([0, 0, 3, 6, 9, p, max(0, 18 - p)])
            o.update(arithmetic='guarded', precision=p, guard=g)
            if rng.random() < 0.5:
                o['display'] = rng.randint(0, p + g + 2)
        elif k < 0.6:
            p = rng.randint(0, 10)
            o.update(arithmetic='fixed', precision=p)
            if rng.random() < 0.5:
                o['display'] = rng.randint(0, p + 2)
        elif k < 0.7:
            o.update(arithmetic='integer')
        elif k < 0.85:
            o.update(arithmetic='rational')
            if rng.random() < 0.6:
                o['display'] = rng.choice([0, 2, 5, 18])
        if rng.random() < 0.2:
            o['integer_quota'] = True
    elif rule in ('meek', 'warren'):
        k = rng.random()
        if k < 0.45:
            p = rng.randint(6, 12)
            g = rng.choice([0, 3, 6, 9, 18 - p])
            o.update(arithmetic='guarded', precision=p, guard=g, omega=rng.randint(2, 5))
            if rng.random() < 0.4:
                o['display'] = rng.randint(1, p + g)
        elif k < 0.8:
            p = rng.randint(4, 10)
            o.update(arithmetic='fixed', precision=p, omega=rng.randint(2, 4))
            if rng.random() < 0.4:
                o['display'] = rng.randint(1, p)
    return o


def arith_class(o):
    r = o['rule']
    forced = {'qpq': 'guarded'}
    if r in forced:
        return forced[r]
    if r not in ('wigm', 'meek', 'warren'):
        return 'fixed'
    a = o.get('arithmetic', 'guarded')
    return 'fixed' if a == 'integer' else a


def file_tokens(opts):
    return ['%s=%s' % (k, {True: 'true', False: 'false'}.get(v, v) if isinstance(v, bool) else v) for k, v in opts.items()]


def render_here(blt, opts, budget, profile=None):
    "opts None: the options are embedded in the ballot file and the caller passes nothing at all, as Election(profile)"
    with contextlib.redirect_stdout(io.StringIO()), cpu_budget(budget):
        p = profile or ElectionProfile(data=blt)
        E = Election(p) if opts is None else Election(p, dict(opts))
        E.count()
        return dict(report=E.report(), dump=E.dump(), json=E.json()), p


def outcome_here(blt, opts, budget):
    "renderings, or the error the election ends in (an election that cannot be counted must fail the same way whatever ran before)"
    try:
        return render_here(blt, opts, budget)[0]
    except BudgetExceeded:
        raise
    except Exception as e:      # pylint: disable=broad-except
        return dict(error='%s: %s' % (type(e).__name__, e))


def reference(blt, opts):
    env = dict(os.environ, PYTHONHASHSEED='0', PYTHONDONTWRITEBYTECODE='1', VERIF_REPO=REPO)
    try:
        p = subprocess.run([sys.executable, '-m', 'vf.render_one'], input=json.dumps(dict(blt=blt, options=opts)), capture_output=True,
                           text=True, cwd=ROOT, env=env, timeout=120)
    except subprocess.TimeoutExpired:
        return None
    if p.returncode != 0:
        return dict(error='subprocess failed: ' + p.stderr[-300:])
    return json.loads(p.stdout)


def first_diff(a, b):
    for k in ('report', 'dump', 'json'):
        if a[k] != b[k]:
            la, lb = a[k].split('\n'), b[k].split('\n')
            i = next((j for j, (x, y) in enumerate(zip(la, lb)) if x != y), min(len(la), len(lb)))
            return k, (la[i] if i < len(la) else None), (lb[i] if i < len(lb) else None)
    return None


def main_sequences(ctx):
    """
    the package's own driver, called back to back in one process: a caller may keep one options dict and only replace `path`,
    and the ballot files may reach it under one path with their timestamps preserved - each call must come out as the same
    file does on its own with a fresh dict
    """
    import os, io, tempfile, contextlib, importlib.util
    from ..harness import REPO
    from .c17 import PROFILE
    if ctx.shard >= 6:
        return
    spec = importlib.util.spec_from_file_location('Droop_cli_c20', os.path.join(REPO, 'Droop.py'))
    cli = importlib.util.module_from_spec(spec)
    spec.loader.exec_module(cli)
    out = os.path.join(os.path.dirname(os.path.dirname(os.path.dirname(os.path.abspath(__file__)))), 'out')
    rng = ctx.case_rng(-17)
    variants = ['', '[droop rule=scotland]', '[droop rule=wigm arithmetic=fixed precision=3]', '[droop meek omega=4]', '[droop rule=wigm-prf dump]',
                '[droop rule=mpls]', '[droop warren arithmetic=fixed precision=5 json]', '[droop rule=qpq]']
    paths = []
    try:
        for v in variants:
            fd, path = tempfile.mkstemp(suffix='.blt', dir=out)
            with os.fdopen(fd, 'w') as f:
                f.write(PROFILE % v)
            paths.append(path)
        # the ballot files carry one and the same modification time, as files unpacked from one archive do; half of the sequences
        # present them under a single path, copied over one another with their timestamps preserved (cp -p, rsync -t)
        import shutil
        t0 = os.path.getmtime(paths[0])
        for path in paths:
            os.utime(path, (t0, t0))
        fd, current = tempfile.mkstemp(suffix='.blt', dir=out)
        os.close(fd)
        paths.append(current)

        def run(d):
            with contextlib.redirect_stdout(io.StringIO()):
                try:
                    return ('ok', cli.main(d))
                except Exception as e:      # pylint: disable=broad-except
                    return ('raised', type(e).__name__)
        for _ in range(6):
            base_extra = dict(rng.choice([{}, {}, dict(dump=True), dict(display=3)]))
            shared = dict(base_extra)
            seq = [rng.randrange(len(variants)) for _ in range(rng.randint(3, 6))]
            one_path = rng.random() < 0.5
            for n, k in enumerate(seq):
                if one_path:
                    shutil.copy2(paths[k], current)
                    shared['path'] = current
                    ctx.count('main_calls_on_a_path_overwritten_with_timestamps_preserved')
                else:
                    shared['path'] = paths[k]
                got = run(shared)
                fresh = run(dict(base_extra, path=paths[k]))
                # the JSON rendering lists the caller's options, the path among them: compare with the path masked
                got = (got[0], got[1].replace(shared['path'], '<path>'))
                fresh = (fresh[0], fresh[1].replace(paths[k], '<path>'))
                ctx.count('main_calls_with_a_reused_options_dict')
                ctx.evaluated()
                if got != fresh:
                    ctx.violation('main-output-depends-on-earlier-calls',
                                  'Droop.main on %r after the calls %r with one reused options dict: %s; with a fresh dict: %s'
                                  % (variants[k], [variants[j] for j in seq[:n]], got[0] if got[0] == 'raised' else (got[1][:160]),
                                     fresh[0] + ' ' + (fresh[1][:160])), dict(kind='main-sequence', sequence=[variants[j] for j in seq[:n + 1]], extra=base_extra))
                    break
    finally:
        for path in paths:
            if os.path.exists(path):
                os.unlink(path)



def shard(ctx):
    main_sequences(ctx)
    n_targets = 0
    i = 0
    budget = 5.0
    while (n_targets < 2 or ctx.time_left()) and i < 10 ** 6:
        rng = ctx.case_rng(i)
        i += 1
        topts = any_config(rng)
        s = gen.pick(rng, dict(G8=1) if (topts['rule'] in ('meek', 'warren') and rng.random() < 0.15) else dict(G1=3, G3=1, G4=3, G6=1, G10=1), False)
        huge = rng.random() < 0.08
        if huge:
            # far more digits than any integer-to-text conversion limit of the interpreter: whether such a count can be rendered
            # at all may depend on the interpreter, but not on what ran earlier in the process
            topts = dict(rule='wigm', arithmetic=rng.choice(['fixed', 'guarded']), precision=rng.randint(4400, 5200))
            s['lines'] = s['lines'][:6]
            gen.make_valid(s, rng)
            ctx.count('targets_with_thousands_of_digits')
        tblt = gen.render(s)
        tcall = topts
        if rng.random() < 0.25:
            # the whole configuration written in the ballot file, and the election built with no options argument at all
            tblt = gen.render(dict(s, options=file_tokens(topts)))
            tcall = None
            ctx.count('targets_configured_in_the_file_only')
        ref = reference(tblt, tcall)
        ctx.evaluated()
        if ref is None or ('error' in ref and ref['error'].startswith('subprocess failed')):
            ctx.count('target_not_usable')
            continue
        if 'error' in ref:
            ctx.count('targets_that_end_in_an_error')
        n_targets += 1
        ctx.count('targets')
        tcls = arith_class(topts)
        for h in range(6 if ctx.quick else 25):
            if h >= 1 and time.monotonic() > ctx.deadline + 45:
                ctx.count('histories_left_out_for_time')
                break
            hist = []
            hist_cfg = []
            n = rng.randint(1, 12)
            for k in range(n):
                o = any_config(rng)
                if k == n - 1 and rng.random() < 0.7:
                    # end the history on the target's arithmetic class with other settings
                    for _ in range(30):
                        o = any_config(rng)
                        if arith_class(o) == tcls and {x: o.get(x) for x in ('precision', 'guard', 'display')} != {x: topts.get(x) for x in ('precision', 'guard', 'display')}:
                            break
                hs = gen.pick(rng, dict(G1=2, G3=1, G6=1), False)
                if rng.random() < 0.25:
                    hist.append((gen.render(dict(hs, options=file_tokens(o))), None))
                else:
                    hist.append((gen.render(hs), o))
                hist_cfg.append(o)
            try:
                for hb, ho in hist:
                    try:
                        render_here(hb, ho, budget)
                    except BudgetExceeded:
                        raise
                    except Exception:      # pylint: disable=broad-except
                        ctx.count('history_election_raised')
                if 'error' in ref:
                    got = outcome_here(tblt, tcall, budget * 40)
                    prof = None
                else:
                    got, prof = render_here(tblt, tcall, budget * (40 if huge else 4))
            except BudgetExceeded:
                ctx.count('not_explored:budget')
                continue
            except Exception as e:      # pylint: disable=broad-except
                ctx.violation('count-after-history-raises:%s' % type(e).__name__, 'target counts in a fresh process but raised %r after a history of %d elections' % (e, len(hist)),
                              dict(blt=tblt, options=tcall, history=[(b, o) for b, o in hist]))
                continue
            ctx.count('histories_compared')
            last = hist_cfg[-1]
            if 'error' in ref:
                ctx.count('error_outcomes_compared')
                if got.get('error', '').split(':')[0] != ref['error'].split(':')[0]:
                    ctx.violation('outcome-depends-on-history', 'in a fresh process %s ends in %r; after a history ending with %s it %s'
                                  % (configs.describe(topts), ref['error'][:120], configs.describe(last),
                                     ('ends in %r' % got['error'][:120]) if 'error' in got else 'is counted and rendered'),
                                  dict(blt=tblt, options=tcall, history=[(b, o) for b, o in hist]))
                continue
            same = arith_class(last) == tcls and {x: last.get(x) for x in ('precision', 'guard', 'display')} != {x: topts.get(x) for x in ('precision', 'guard', 'display')}
            if same:
                ctx.count('same_class_different_settings')
                ctx.mark_nontrivial(gen.canon_hash(s, configs.describe(topts) + repr(hist_cfg)))
            d = first_diff(ref, got)
            if d:
                ctx.violation('record-depends-on-history:%s:%s' % (tcls, d[0]),
                              '%s of %s differs after a history ending with %s: fresh %r, after history %r'
                              % (d[0], configs.describe(topts), configs.describe(last), d[1], d[2]),
                              dict(blt=tblt, options=tcall, history=[(b, o) for b, o in hist]))
            # recount of the same profile object in a fresh Election
            if h == 0:
                try:
                    again, _ = render_here(None, tcall, budget * (40 if huge else 4), profile=prof)
                    ctx.count('recounts_compared')
                    d2 = first_diff(got, again)
                    if d2:
                        ctx.violation('recount-differs:%s:%s' % (tcls, d2[0]), 'recounting the same profile under %s gives a different %s: %r vs %r'
                                      % (configs.describe(topts), d2[0], d2[1], d2[2]), dict(blt=tblt, options=tcall, history=[(tblt, tcall)]))
                except BudgetExceeded:
                    ctx.count('not_explored:budget')
        ctx.sample(dict(target=topts, in_file_only=tcall is None, text=tblt[:300], last_history=hist_cfg[-3:]), keep=2)


def replay(case):
    if case.get('kind') == 'main-sequence':
        from ..engine import Ctx
        ctx = Ctx('C20', 'quick', 0, 0, 1, 60)
        main_sequences(ctx)
        return [(v['key'], v['msg']) for v in ctx.violations]
    ref = reference(case['blt'], case['options'])
    if ref is None or ('error' in ref and ref['error'].startswith('subprocess failed')):
        return []
    for hb, ho in case.get('history', []):
        try:
            render_here(hb, ho, 60)
        except Exception:      # pylint: disable=broad-except
            pass
    if 'error' in ref:
        got = outcome_here(case['blt'], case['options'], 600)
        if got.get('error', '').split(':')[0] != ref['error'].split(':')[0]:
            return [('outcome-depends-on-history', '%r vs %r' % (ref['error'][:100], got.get('error', 'counted')[:100]))]
        return []
    try:
        got, _ = render_here(case['blt'], case['options'], 600)
    except Exception as e:      # pylint: disable=broad-except
        return [('count-after-history-raises:%s' % type(e).__name__, repr(e))]
    d = first_diff(ref, got)
    return [('record-depends-on-history:' + d[0], '%r vs %r' % (d[1], d[2]))] if d else []
