"""
C05 -- Droop proportionality: a solid coalition with k quotas wins k seats.
Offline checker over (ballots, winners) of completed counts.
"""
from fractions import Fraction
from .. import stream, gen, configs

ID = 'C05'
LEVEL = 'exploration'
RULE_TEXT = ('strict-ranking profiles, weighted to G5 (a solid coalition supported by k quotas -1/0/+1/+2/+3 ballots, random internal orders and tails) '
             'plus G1, G2, G6, G10 x all 11 rules x arithmetics (mpls without undeclared write-ins). After each completed count, for every candidate set S '
             'that is the set of the first |S| preferences of at least one ballot (all other sets have no solid support) the solid support is counted '
             'conservatively (a ballot supports S only if its first |S| ranks are exactly S); for every k <= min(|S|, seats) with support > k*q0 + '
             '2*ulp*ballots*candidates (q0 = the quota of the first recorded action) at least k members of S must be elected; with one seat a candidate '
             'with more than half of the first preferences must win. non-trivial = an obligation whose premise holds with a margin of at most 2 ballots; '
             'distinct = distinct (structure, configuration) with such an obligation')
ASSUMPTIONS = ['solid support is counted conservatively, so the monitor never demands more than the property',
               'the allowance is the property\'s own: ballots x candidates x 2 units in the last place (vacuous for multi-seat integer arithmetic)']
MIN_COUNTERS = {'counts_judged': 200, 'obligations_checked': 1000, 'binding_obligations': 300, 'tight_obligations': 50, 'one_seat_majorities_checked': 20}
WEIGHTS = dict(G1=2, G2=2, G5=6, G5b=3, G6=1, G10=2)
ANCHOR_FILES = ['droop/rules/wigm.py', 'droop/rules/wigm_prf.py', 'droop/rules/cfer.py', 'droop/rules/scotland.py', 'droop/rules/mpls.py',
                'droop/rules/meek.py', 'droop/rules/meek_prf.py', 'droop/rules/qpq.py']


def check(run):
    out = []
    st = dict(oblig=0, binding=0, tight=0, majority=0)
    E, cfg = run.E, run.cfg
    rule = E.rule.name
    seats = E.nSeats
    elected = {c.cid for c in E.elected}
    nb = E.nBallots
    ncand = len([c for c in E.C if c.state != 'withdrawn'])
    q0 = cfg.frac(run.snaps[0].quota)
    # 'units in the last place of the arithmetic': for guarded arithmetic that is the declared precision (values closer than half
    # such a unit compare equal), not the guard digits behind it
    unit = Fraction(1, 10 ** cfg.precision) if cfg.kind == 'guarded' else cfg.ulp
    allowance = 2 * unit * nb * ncand
    support = {}
    firsts = {}
    for m_raw, r in zip(run.mults, run.rankings):
        m = int(cfg.frac(m_raw))
        seen = []
        firsts[r[0]] = firsts.get(r[0], 0) + m
        for c in r:
            seen.append(c)
            fs = frozenset(seen)
            support[fs] = support.get(fs, 0) + m
    for S, sup in support.items():
        for k in range(1, min(len(S), seats) + 1):
            st['oblig'] += 1
            need = k * q0 + allowance
            if sup > need:
                st['binding'] += 1
                if sup - need <= 2:
                    st['tight'] += 1
                got = len(elected & S)
                if got < k:
                    key = 'solid-coalition-underrepresented'
                    if rule == 'warren' and any(e.tag == 'iterate' and '(stable' in e.msg.lower() for e in run.events):
                        # the Warren iteration stopped in a "stable state" although the surplus had not converged, then excluded
                        # a candidate "within the surplus" of the lowest
                        key = 'warren-premature-stable-state'
                    out.append((key,
                                'coalition %s is solidly supported by %d ballots > %d quotas (q0=%s, allowance %s) but only %d of its members are elected (%s, %d seats) under %s %s'
                                % (sorted(S), sup, k, float(q0), float(allowance), got, sorted(elected), seats, rule, cfg.describe()),
                                dict(coalition=sorted(S), support=sup, k=k)))
    if seats == 1:
        for c, v in firsts.items():
            if 2 * v > nb:
                st['majority'] += 1
                if c not in elected:
                    out.append(('majority-candidate-loses', 'candidate %d is ranked first on %d of %d ballots but %s wins the single seat under %s %s'
                                % (c, v, nb, sorted(elected), rule, cfg.describe()), dict(candidate=c)))
    return out, st


def partial_tweak(rng, opts):
    """
    a Meek / Warren configuration given only in part (arithmetic, precision, perhaps guard or omega, never all of them): the rest
    falls to the rule's defaults, and the claim holds for whatever those turn out to be
    """
    o = dict(rule=opts['rule'], arithmetic='guarded', precision=rng.randint(6, 12))
    k = rng.random()
    if k < 0.6:
        o['guard'] = rng.choice([0, 0, 0, 1, 2, 3])
    elif k < 0.8:
        o['omega'] = rng.randint(3, 6)
    if rng.random() < 0.6:
        o['defeat_batch'] = 'none'
    return o


def tweak(rng, opts):
    "steer the configuration towards rarely taken exclusion branches (zero-vote batches, stable-state exclusions, single defeats)"
    if opts['rule'] == 'wigm' and rng.random() < 0.5:
        opts['defeat_batch'] = 'zero'
    if opts['rule'] in ('meek', 'warren') and rng.random() < 0.4:
        p = rng.randint(3, 6)
        opts.update(arithmetic=rng.choice(['fixed', 'fixed', 'guarded']), precision=p, omega=rng.randint(max(1, p - 1), p))
        if opts['arithmetic'] == 'guarded':
            opts['guard'] = 0
        else:
            opts.pop('guard', None)
        if rng.random() < 0.6:
            opts['defeat_batch'] = 'none'
    return opts


def shard(ctx):
    n_min = 60 if ctx.quick else 400
    for i, rng in ctx.cases(n_min, 10 ** 9):
        if i % 6 == 1:
            case = stream.make_case(ctx, rng, dict(G5=4, G5b=1, G1=1, G3=1), rules=['meek', 'warren'], allow_eq=False, tweak=partial_tweak)
            ctx.count('partially_configured_meek_cases')
        else:
            case = stream.make_case(ctx, rng, WEIGHTS, allow_eq=False, meek_rational=True, tweak=tweak)
        run = case.run
        if not stream.usable(ctx, case, partial_ok=False):
            continue
        if not run.complete:
            continue
        if run.E.rule.name == 'mpls' and any(c.isUndeclared for c in run.E.C):
            ctx.count('skipped:mpls-undeclared')
            continue
        vs, st = check(run)
        ctx.count('obligations_checked', st['oblig'])
        ctx.count('binding_obligations', st['binding'])
        ctx.count('tight_obligations', st['tight'])
        ctx.count('one_seat_majorities_checked', st['majority'])
        if st['tight']:
            ctx.mark_nontrivial(case.hash())
        ctx.sample(stream.sample_of(case))
        for key, msg, wit in vs:
            ctx.violation(key, msg, case.replay_case(), wit)


def replay(case):
    run = stream.replay_run(case)
    if not run.complete:
        return []
    return [(k, m) for k, m, _ in check(run)[0]]
