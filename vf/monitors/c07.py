"""
C07 -- only lowest candidates or sure losers are excluded; ties follow the tie order;
without a logged tie the record does not depend on the tie order.
Offline checker over the traced history + relational re-run with another tie order.
"""
import json
from .. import stream, gen
from ..harness import do_count, tie_names, action_name

ID = 'C07'
LEVEL = 'exploration'
RULE_TEXT = ('tie-heavy (G2, incl. candidates tied now but unequal at an earlier stage), sure-loser ladder (G10) and degenerate (G6) '
             'profiles with random tie orders x all 11 rules x arithmetics. Every exclusion group is judged against its pre-state '
             '(lowest / within-surplus / lowest quotient; batches: combined tallies + untransferred surplus < next tally and enough '
             'candidates remain); every one-at-a-time surplus choice must be the largest; every tie must be logged, name the tied set, '
             'and resolve by the tie order (Scottish rule: by the most recent stage with unequal tallies, then by lot); no tie may be '
             'logged without a tie. Each profile is counted again with a different [tie] order: if the first run logged no tie the two '
             'records (actions, raw snapshots, report, dump, json minus tie_order) must be identical. non-trivial = history with a '
             'logged tie or a batch exclusion')
ASSUMPTIONS = ['guarded comparisons are non-transitive: an exclusion whose candidates differ by less than twice the tolerance is counted as not_evaluated',
               'Scottish prior-stage rule: any member of the extreme set at the most recent differing stage is accepted when that set is not a singleton (statute silent)',
               'names are unique and contain no ", " so tie messages can be mapped back to candidates']
MIN_COUNTERS = {'counts_judged': 200, 'single_exclusions_checked': 500, 'batch_exclusions_checked': 20, 'ties_checked': 100,
                'surplus_choices_checked': 200, 'tiefree_pairs_compared': 100}
WEIGHTS = dict(G1=2, G2=7, G3=1, G4=1, G6=2, G7=2, G9=1, G10=5)
ANCHOR_FILES = ['droop/rules/wigm.py', 'droop/rules/wigm_prf.py', 'droop/rules/cfer.py', 'droop/rules/scotland.py',
                'droop/rules/mpls.py', 'droop/rules/meek.py', 'droop/rules/meek_prf.py', 'droop/rules/qpq.py', 'droop/candidates.py']


def extreme_set(cfg, vals, lowest=True):
    "(tied cids, ambiguous) -- candidates cmp-equal to the true extreme"
    ext = min(vals.values()) if lowest else max(vals.values())
    tied = sorted(c for c, v in vals.items() if cfg.cmp(v, ext) == 0)
    amb = cfg.geps > 1 and any(0 < abs(v - ext) < 2 * cfg.geps for v in vals.values())
    return tied, amb


def check(run):
    out = []
    st = dict(single=0, batch=0, ties=0, surplus=0, not_eval=0, prior=0, lot=0, batch_sizes=[])
    E, cfg = run.E, run.cfg
    rule = E.rule.name
    method = E.rule.method
    seats = E.nSeats
    wd = set(run.profile.withdrawn)
    tieorder = run.profile.tieOrder
    name2cid = {c.name: c.cid for c in E.C}
    undecl = {c.cid for c in E.C if c.isUndeclared} if rule == 'mpls' else set()
    snaps = run.snaps
    round_snaps = []            # Scottish prior-stage tallies: snapshot of each 'round' action

    def bad(key, msg, ev):
        out.append((key, '%s at action %d (%s: %s) under %s %s' % (msg, ev.idx, ev.tag, ev.msg, rule, cfg.describe()), dict(action=ev.idx)))

    def val(c):
        return c.quotient if rule == 'qpq' else c.vote

    def first_by_tieorder(cids):
        return min(cids, key=lambda c: tieorder[c])

    def scot_choice_ok(tied, chosen, lowest):
        """
        the Scottish prior-stage rule; returns (ok, how).  When several candidates share the extreme at the most recent differing
        stage, only they stay in contention; the statute does not say whether older stages are consulted again among them or the
        lot decides at once, so both are accepted - but nothing else: among candidates level at every stage the lot (tie order) decides
        """
        live = list(tied)
        first_shared = None
        how = 'lot'
        for rs in reversed(round_snaps):
            vals = {c: rs.cands[c].vote for c in live}
            if len(set(vals.values())) > 1:
                ext = min(vals.values()) if lowest else max(vals.values())
                live = [c for c in live if vals[c] == ext]
                if first_shared is None:
                    first_shared = list(live)
                    how = 'prior' if len(live) == 1 else 'prior-shared'
                if len(live) == 1:
                    break
        permitted = {first_by_tieorder(live)}
        if first_shared is not None:
            permitted.add(first_by_tieorder(first_shared))
        return chosen in permitted, how

    def judge_tie(tied, chosen, tie_ev, act_ev, lowest, amb):
        "tied: monitor's tied set (cids); tie_ev: preceding 'tie' event or None"
        if amb:
            st['not_eval'] += 1
            return
        if len(tied) >= 2:
            st['ties'] += 1
            if tie_ev is None:
                bad('tie-not-logged', 'candidates %s tie but no tie action precedes the choice of %d' % (tied, chosen), act_ev)
                return
            try:
                names, ch = tie_names(tie_ev.msg)
                logged = sorted(name2cid[n] for n in names)
                lch = name2cid[ch]
            except (KeyError, ValueError):
                bad('tie-message-unparseable', 'cannot map tie message %r to candidates' % tie_ev.msg, tie_ev)
                return
            if logged != sorted(tied):
                bad('tie-names-wrong-set', 'tie action names %s, tied candidates are %s' % (logged, sorted(tied)), tie_ev)
            if lch != chosen:
                bad('tie-names-wrong-choice', 'tie action chose %d but %d was acted on' % (lch, chosen), tie_ev)
            if rule == 'scotland':
                ok, how = scot_choice_ok(tied, chosen, lowest)
                st['prior' if how.startswith('prior') else 'lot'] += 1
                by_prior = 'prior stage' in tie_ev.msg
                if not ok:
                    bad('scot-tie-wrong-choice:' + how, 'tied %s resolved to %d against the %s rule' % (tied, chosen, how), tie_ev)
                elif (how == 'lot') == by_prior and how != 'prior-shared':
                    bad('scot-tie-kind-mislabelled', 'tie resolved by %s but logged as %r' % (how, tie_ev.msg), tie_ev)
            else:
                st['lot'] += 1
                if chosen != first_by_tieorder(tied):
                    bad('tie-not-by-tie-order', 'tied %s resolved to %d, first in tie order is %d' % (tied, chosen, first_by_tieorder(tied)), tie_ev)
        else:
            if tie_ev is not None:
                bad('tie-logged-without-tie', 'tie action logged but %d is the unique extreme' % chosen, tie_ev)

    last_iterate = None
    i = 0
    n = len(snaps)
    while i < n:
        ev = snaps[i]
        prev = snaps[i - 1] if i else None
        if ev.tag == 'round':
            round_snaps.append(ev)
        if ev.tag == 'iterate':
            last_iterate = ev
        # -------------------------------------------------------------- exclusions
        if ev.tag == 'defeat' and prev is not None:
            j = i
            rem = 'remaining' in ev.msg.lower()
            grp = []
            while j < n and snaps[j].tag == 'defeat' and ('remaining' in snaps[j].msg.lower()) == rem:
                grp.append(snaps[j])
                j += 1
            G = []
            b = prev
            for g in grp:
                G += [cid for cid, c in g.cands.items() if c.state == 'defeated' and b.cands[cid].state != 'defeated']
                b = g
            if rem or not G:
                i = j
                continue
            pre = ev if rule not in ('meek', 'warren') else (last_iterate or ev)
            hop = {cid: val(c) for cid, c in pre.cands.items() if cid not in wd and (c.state == 'hopeful' or cid in G) and val(c) is not None}
            tie_ev = prev if prev.tag == 'tie' else None
            n_elected = sum(1 for c in pre.cands.values() if c.state == 'elected')
            if len(G) == 1:
                st['single'] += 1
                c0 = G[0]
                if c0 in undecl:
                    i = j
                    continue
                if method == 'meek':
                    lo = min(hop.values())
                    s = pre.surplus if pre.surplus is not None and pre.surplus > 0 else 0      # the stored value, as the rule adds it
                    tied = sorted(c for c, v in hop.items() if cfg.cmp(lo + s, v) >= 0)
                    # membership of the tied set hinges on differences within a few tolerances (a slightly negative surplus inside
                    # the tolerance is kept by the code, dropped here): not evaluated, as for every other near-tolerance decision
                    amb = cfg.geps > 1 and any(0 < abs(v - (lo + s)) < 3 * cfg.geps for v in hop.values())
                else:
                    tied, amb = extreme_set(cfg, hop, True)
                # however the near-tolerance members of the tied set are read, the excluded candidate itself cannot stand more than one
                # tolerance (plus the untransferred surplus, Meek family) above the true minimum: that bound does not depend on
                # the order or transitivity of the comparisons
                floor = min(hop.values()) + (s if method == 'meek' else 0)
                gross = cfg.geps > 1 and hop[c0] - floor >= cfg.geps + cfg.geps // 4
                if c0 not in tied and (not amb or gross):
                    bad('excluded-not-lowest', 'candidate %d (%s) excluded but the lowest are %s (%s)'
                        % (c0, cfg.frac(hop[c0]), tied, [str(cfg.frac(hop[t])) for t in tied]), ev)
                else:
                    judge_tie(tied, c0, tie_ev, ev, True, amb)
            else:
                st['batch'] += 1
                st['batch_sizes'].append(len(G))
                if tie_ev is not None:
                    bad('tie-logged-before-batch', 'tie action precedes a batch exclusion', tie_ev)
                outside = {c: v for c, v in hop.items() if c not in G}
                uncond = [c for c in G if c in undecl and pre.round == 2]
                judged = [c for c in G if c not in uncond]
                if judged:
                    if method == 'meek':
                        s = pre.surplus if pre.surplus is not None and pre.surplus > 0 else 0
                    elif rule == 'mpls':
                        s = sum(max(0, c.vote - pre.quota) for cid, c in pre.cands.items()
                                if cid not in wd and cid not in undecl and c.state != 'defeated' and cid not in G)
                    else:
                        s = sum(max(0, c.vote - pre.quota) for cid, c in pre.cands.items()
                                if cid not in wd and c.state in ('hopeful', 'elected') and cid not in G)
                    lhs = sum(hop[c] for c in G) + s
                    if not outside:
                        bad('batch-excludes-everyone', 'batch %s leaves no hopeful candidate' % G, ev)
                    else:
                        nxt = min(outside.values())
                        if cfg.geps > 1 and abs(lhs - nxt) < 2 * cfg.geps:
                            # the verdict would hinge on a difference inside twice the guarded tolerance (tolerant equality
                            # is not additive: several tallies each "equal to zero" need not sum to zero)
                            st['not_eval'] += 1
                        elif not cfg.cmp(lhs, nxt) < 0:
                            bad('batch-not-sure-losers', 'batch %s: combined tallies + surplus = %s is not below the next tally %s'
                                % (G, cfg.frac(lhs), cfg.frac(nxt)), ev)
                # enough electable candidates must remain (mpls write-ins are excluded unconditionally and never fill a seat)
                electable_before = [c for c in hop if c not in undecl]
                electable_after = [c for c in outside if c not in undecl]
                need = min(seats - n_elected, len(electable_before))
                if len(electable_after) < need:
                    bad('batch-leaves-too-few', 'batch %s leaves %d electable hopefuls for %d fillable seats' % (G, len(electable_after), need), ev)
            i = j
            continue
        # -------------------------------------------------------------- surplus choice
        chosen = None
        if ev.tag == 'unpend' and prev is not None and rule in ('wigm', 'wigm-prf', 'wigm-prf-batch', 'scotland'):
            who = [cid for cid, c in ev.cands.items() if prev.cands[cid].pending and not c.pending]
            if len(who) == 1:
                chosen = who[0]
                pool = {cid: c.vote for cid, c in prev.cands.items() if c.state == 'elected' and c.pending}
        elif ev.tag == 'elect' and rule == 'mpls' and prev is not None and ev.msg.startswith('Elect: '):
            who = [cid for cid, c in ev.cands.items() if c.state == 'elected' and prev.cands[cid].state != 'elected']
            if len(who) == 1:
                chosen = who[0]
                pool = {cid: c.vote for cid, c in prev.cands.items() if c.state == 'hopeful' and cid not in wd and c.vote >= prev.quota}
                pool.setdefault(chosen, prev.cands[chosen].vote)
        if chosen is not None and pool:
            st['surplus'] += 1
            tied, amb = extreme_set(cfg, pool, False)
            tie_ev = prev if prev.tag == 'tie' else None
            gross = cfg.geps > 1 and max(pool.values()) - pool[chosen] >= cfg.geps + cfg.geps // 4
            if chosen not in tied and (not amb or gross):
                bad('surplus-not-largest', 'surplus of %d (%s) transferred first, largest are %s' % (chosen, cfg.frac(pool[chosen]), tied), ev)
            else:
                judge_tie(tied, chosen, tie_ev, ev, False, amb)
        # -------------------------------------------------------------- QPQ election ties (every resolution is logged)
        if ev.tag == 'elect' and rule == 'qpq' and prev is not None and 'remaining' not in ev.msg:
            who = [cid for cid, c in ev.cands.items() if c.state == 'elected' and prev.cands[cid].state != 'elected']
            if not who and prev.tag in ('round', 'tie'):
                # re-election right after a restart: snapshots say elected before and after
                who = [name2cid.get(action_name(ev.msg))]
            if len(who) == 1 and who[0] is not None:
                pool = {cid: c.quotient for cid, c in ev.cands.items() if cid not in wd and (c.state == 'hopeful' or cid == who[0]) and c.quotient is not None}
                tied, amb = extreme_set(cfg, pool, False)
                if who[0] in tied or amb:
                    judge_tie(tied, who[0], prev if prev.tag == 'tie' else None, ev, False, amb)
        # -------------------------------------------------------------- orphan tie actions
        if ev.tag == 'tie':
            nxt = snaps[i + 1] if i + 1 < n else None
            if nxt is None or nxt.tag not in ('defeat', 'unpend', 'elect'):
                bad('tie-not-followed-by-choice', 'tie action followed by %s' % (nxt.tag if nxt else None), ev)
        i += 1
        if len(out) > 20:
            break
    return out, st


def strip_tie(js):
    d = json.loads(js)
    for c in d.get('cdict', {}).values():
        c.pop('tie_order', None)
    return d


def relational(case, rng, ctx):
    "re-run with a different tie order; identical records required when no tie was logged"
    s = case.s
    run = case.run
    if any(e.tag == 'tie' for e in run.events):
        ctx.count('pairs_with_logged_tie')
        return []
    s2 = dict(s)
    t = list(range(1, s['nc'] + 1))
    for _ in range(5):
        rng.shuffle(t)
        if t != (s.get('tie') or list(range(1, s['nc'] + 1))):
            break
    else:
        return []
    s2['tie'] = t
    blt2 = gen.render(s2)
    run2 = do_count(blt2, case.opts, budget=stream.budget_for(ctx), render=True,
                    election_args=stream.election_args(getattr(case, 'entry', 'dict'), case.opts))      # same way in as the first count
    if run2.timed_out or run2.error is not None or run.report is None:
        ctx.count('pair_not_comparable')
        return []
    ctx.count('tiefree_pairs_compared')
    out = []
    a = [e.astuple() for e in run.events]
    b = [e.astuple() for e in run2.events]
    if a != b:
        k = next((i for i, (x, y) in enumerate(zip(a, b)) if x != y), min(len(a), len(b)))
        out.append(('record-depends-on-tie-order', 'no tie logged, yet action %d differs under tie order %s vs %s: %r / %r'
                    % (k, s.get('tie'), t, a[k][:3] if k < len(a) else None, b[k][:3] if k < len(b) else None),
                    dict(blt2=blt2, action=k)))
    elif run.report != run2.report or run.dump != run2.dump:
        out.append(('rendering-depends-on-tie-order', 'no tie logged, yet report/dump differ under another tie order', dict(blt2=blt2)))
    elif strip_tie(run.json) != strip_tie(run2.json):
        out.append(('json-depends-on-tie-order', 'no tie logged, yet json differs beyond cdict.tie_order', dict(blt2=blt2)))
    return out


def coarse(rng, opts):
    """
    one parametric (wigm / Meek-family) case in five under very coarse guarded arithmetic (precision 0-2, a few guard digits): tallies then sit within
    a tolerance or two of one another all the time, which is where a lowest candidate found by tolerant comparisons and the true
    lowest part ways
    """
    if opts['rule'] == 'wigm' and rng.random() < 0.2:
        o = dict(rule='wigm', arithmetic='guarded', precision=rng.randint(0, 2), guard=rng.randint(1, 6))
        if rng.random() < 0.3:
            o['defeat_batch'] = 'zero'
        return o
    if opts['rule'] in ('meek', 'warren') and rng.random() < 0.2:
        p = rng.randint(0, 2)
        o = dict(rule=opts['rule'], arithmetic='guarded', precision=p, guard=rng.randint(1, 3))
        if rng.random() < 0.5:
            o['omega'] = rng.randint(0, max(0, p))
        if rng.random() < 0.4:
            o['defeat_batch'] = 'none'
        return o
    return opts


def shard(ctx):
    n_min = 60 if ctx.quick else 400
    for i, rng in ctx.cases(n_min, 10 ** 9):
        case = stream.make_case(ctx, rng, WEIGHTS, render=True, tweak=coarse)
        if not stream.usable(ctx, case):
            continue
        vs, st = check(case.run)
        ctx.count('single_exclusions_checked', st['single'])
        ctx.count('batch_exclusions_checked', st['batch'])
        ctx.count('ties_checked', st['ties'])
        ctx.count('ties_by_prior_stage', st['prior'])
        ctx.count('ties_by_lot', st['lot'])
        ctx.count('surplus_choices_checked', st['surplus'])
        ctx.count('not_evaluated_near_tolerance', st['not_eval'])
        for b in st['batch_sizes']:
            ctx.count('batch_size:%d' % min(b, 6))
        if st['ties'] or st['batch']:
            ctx.mark_nontrivial(case.hash())
        ctx.sample(stream.sample_of(case))
        for key, msg, wit in vs:
            ctx.violation(key, msg, case.replay_case(), wit)
        if case.run.complete:
            for key, msg, wit in relational(case, rng, ctx):
                ctx.violation(key, msg, case.replay_case(blt2=wit.get('blt2')), wit)


def replay(case):
    run = stream.replay_run(case, render=True)
    if run.timed_out or run.E is None:
        return []
    res = [(k, m) for k, m, _ in check(run)[0]]
    if case.get('blt2') and run.error is None:
        run2 = do_count(case['blt2'], case['options'], budget=60.0, render=True,
                        election_args=stream.election_args(case.get('entry', 'dict'), case['options']))
        if run2.error is None and not run2.timed_out:
            if [e.astuple() for e in run.events] != [e.astuple() for e in run2.events] or run.report != run2.report \
                    or run.dump != run2.dump or strip_tie(run.json) != strip_tie(run2.json):
                if not any(e.tag == 'tie' for e in run.events):
                    res.append(('record-depends-on-tie-order', 'records differ under the second tie order'))
    return res
