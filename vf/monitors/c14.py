"""
C14 -- printed numbers are the stored values, correctly rounded.
Contract on __str__ of the three value classes (half-up of the exact value, digit count, underscore,
sign, value unchanged), driven by sweeps around carries and by real counts whose renderings print
every figure through the contract.
"""
import random
from fractions import Fraction
from .. import stream, gen
from ..harness import Fixed, Guarded, Rational, do_count
from ..valuecontracts import Recorder, install_str
from droop.options import Options

ID = 'C14'
LEVEL = 'exploration'
RULE_TEXT = ('contract on str() of Fixed, Guarded and Rational: the text (underscore removed) parsed as a decimal must equal the exact value '
             'rounded half-up at the display digits (for negative exact ties half-away-from-zero is also accepted), with exactly that many '
             'fractional digits, the guard digits after an underscore when display > precision, the right sign, and the stored value unchanged. '
             'Swept: for precision, guard, display in 0..5 every raw value in [-1300,1300] plus all values within 3 of every carry / half-unit '
             'boundary up to 10^(p+g+1) (this sub-space is enumerated completely), random magnitudes to 10^40 and exact ties +-1 at up to 60 dropped digits (precision to 20, guard to 40), rational ties k/(2*10^d); the '
             'contract stays installed while counts are rendered (report, dump, json) under fixed/guarded/rational with display below, at and '
             'above the precision; after each such count the previous one, when it used another arithmetic class, is rendered again and must read exactly as before (the configured display digits belong to the election). non-trivial = a printed value that needed rounding or is negative; distinct = distinct (class, settings, value)')
ASSUMPTIONS = ['fractions.Fraction is the trusted shadow', '"N" and "N.0" are both accepted at display 0; "-0.00" and "0.00" both accepted for values rounding to zero']
MIN_COUNTERS = {'str_evaluations': 200000, 'fixed_str': 50000, 'guarded_str': 50000, 'rational_str': 20000,
                'rounded_or_negative': 20000, 'str_inside_renderings': 20000,
                're_renderings_after_a_count_of_another_class': 50}
ANCHOR_FILES = ['droop/values/fixed.py', 'droop/values/guarded.py', 'droop/values/rational.py', 'droop/record.py']


def interesting(total_digits, unit_digits):
    "raw values around carries and rounding boundaries for a scale of 10^total_digits printed at a unit of 10^unit_digits"
    out = set(range(-1300, 1301))
    S = 10 ** total_digits
    u = 10 ** unit_digits
    for base in (0, S, 2 * S, 10 * S, 99 * S, S // 2 if S > 1 else 0, 12345 * S + 6789):
        for k in (0, 1, 9, 10, 99):
            for center in (base + k * u, base + k * u + u // 2, base + S - u // 2, base + S - u, base + S - 1):
                for d in range(-3, 4):
                    out.add(center + d)
                    out.add(-(center + d))
    return sorted(out)


def sweep(rec, ctx, rng, exhaustive):
    n = 0
    combos = [(p, g, d) for p in range(0, 6) for g in range(0, 6) for d in range(0, 6)]
    if exhaustive:
        combos = [c for i, c in enumerate(combos) if i % ctx.nshards == ctx.shard]
    else:
        combos = [(rng.randint(0, 20), rng.choice([rng.randint(0, 12), rng.randint(13, 40)]), rng.randint(0, 45)) for _ in range(6)]
    for p, g, d in combos:
        # Fixed (guard unused)
        if g == 0 or not exhaustive:
            Fixed.initialize(Options(dict(arithmetic='fixed', precision=p, display=d)))
            if Fixed.display != (d if d <= p else p):
                rec.fail('fixed:display-not-as-configured', 'precision=%d display=%d configured, the class prints %r digits' % (p, d, Fixed.display))
            vals = interesting(p, max(0, p - min(d, p))) if exhaustive else [rng.randint(-10 ** rng.randint(0, 40), 10 ** rng.randint(0, 40)) for _ in range(300)]
            if not exhaustive:
                u = 10 ** max(0, p - min(d, p))
                for _ in range(60):
                    base = rng.randint(0, 10 ** rng.randint(0, 6)) * u
                    for delta in (-1, 0, 1):
                        vals.append(base + u // 2 + delta)
                        vals.append(-(base + u // 2 + delta))
            for r in vals:
                str(Fixed(r, True))
                n += 1
        Guarded.initialize(Options(dict(arithmetic='guarded', precision=p, guard=g, display=d)))
        dd = min(d, p + g)
        if Guarded.display != dd:
            rec.fail('guarded:display-not-as-configured', 'precision=%d guard=%d display=%d configured, the class prints %r digits' % (p, g, d, Guarded.display))
        vals = interesting(p + g, p + g - dd) if exhaustive else [rng.randint(-10 ** rng.randint(0, 40), 10 ** rng.randint(0, 40)) for _ in range(300)]
        if not exhaustive:
            # values on and beside a rounding boundary at any number of dropped digits (ties are where a rounding rule shows)
            u = 10 ** (p + g - dd)
            for _ in range(60):
                base = rng.randint(0, 10 ** rng.randint(0, 6)) * u
                for delta in (-1, 0, 1):
                    vals.append(base + u // 2 + delta)
                    vals.append(-(base + u // 2 + delta))
                vals.append(base + u - 1)
        for r in vals:
            str(Guarded(r, True))
            n += 1
        if g == 0 or not exhaustive:
            Rational.initialize(Options(dict(arithmetic='rational', display=d)))
            if Rational.dp != d:
                rec.fail('rational:display-not-as-configured', 'display=%d configured, the class prints %r digits' % (d, Rational.dp))
            for k in range(-60, 61):
                for den in (1, 2, 3, 4, 7, 8, 2 * 10 ** d, 4 * 10 ** d, 10 ** d, 3 * 10 ** d):
                    str(Rational(k, den))
                    n += 1
            for _ in range(100):
                str(Rational(rng.randint(-10 ** 30, 10 ** 30), rng.randint(1, 10 ** rng.randint(0, 30))))
                n += 1
            # values a hair beside a rounding boundary, with very long denominators (as Meek fractions have)
            for k in range(-12, 13):
                tie = Fraction(2 * k + 1, 2 * 10 ** d)
                for eps in (Fraction(1, 10 ** 20), Fraction(1, 10 ** 40), Fraction(1, 3 * 10 ** 60), Fraction(1, 7 ** 90), Fraction(1, 10 ** 120 + 7)):
                    for v in (tie - eps, tie + eps, -tie - eps, -tie + eps):
                        str(Rational(v))
                        n += 1
    return n


def first_diff(a, b):
    la, lb = a.splitlines(), b.splitlines()
    for x, y in zip(la, lb):
        if x != y:
            return (x[:160], y[:160])
    return ('%d lines' % len(la), '%d lines' % len(lb))


def rerender(first, then):
    "count and render `first`, then `then` (another arithmetic class), then render `first` again"
    a = do_count(first['blt'], first['options'], budget=60, render=True)
    b = do_count(then['blt'], then['options'], budget=60, render=True)
    if not (a.complete and b.complete):
        return []
    out = []
    try:
        again = dict(report=a.E.report(), dump=a.E.dump(), json=a.E.json())
    except Exception as e:      # pylint: disable=broad-except
        return [('re-rendering-raises:' + type(e).__name__, repr(e))]
    for what in ('report', 'dump', 'json'):
        if again[what] != getattr(a, what):
            out.append(('printed-form-changed-by-another-election:' + what, repr(first_diff(getattr(a, what), again[what]))))
    return out


def shard(ctx):
    rec = Recorder()
    rm = install_str(rec)
    try:
        rng = ctx.case_rng(-1)
        n = sweep(rec, ctx, rng, True)
        ctx.count('sweep_values', n)
        ctx.count('sweep_complete_shards')
        for k in range(5 if ctx.quick else 50):
            n = sweep(rec, ctx, ctx.case_rng(-2 - k), False)
            ctx.count('random_values', n)
        before = rec.total()
        n_min = 30 if ctx.quick else 300
        prev = None
        for i, rng in ctx.cases(n_min, 10 ** 9):
            rule = rng.choice(['wigm', 'wigm', 'wigm', 'meek', 'warren', 'scotland', 'mpls', 'cfer', 'wigm-prf', 'meek-prf', 'qpq'])
            opts = dict(rule=rule)
            if rule == 'wigm':
                k = rng.random()
                if k < 0.4:
                    p = rng.randint(1, 9)
                    opts.update(arithmetic='fixed', precision=p, display=rng.randint(0, p))
                elif k < 0.7:
                    p, g = rng.randint(0, 9), rng.randint(0, 6)
                    opts.update(arithmetic='guarded', precision=p, guard=g, display=rng.randint(0, p + g + 1))
                else:
                    opts.update(arithmetic='rational', display=rng.choice([0, 1, 1, 2, 2, 3, 6, 12]))
            elif rule in ('meek', 'warren'):
                k = rng.random()
                if k < 0.5:
                    p = rng.randint(4, 9)
                    opts.update(arithmetic='fixed', precision=p, display=rng.randint(1, p))
                else:
                    p, g = rng.randint(6, 12), rng.randint(0, 6)
                    opts.update(arithmetic='guarded', precision=p, guard=g, display=rng.randint(1, p + g), omega=rng.randint(2, 5))
            s = gen.pick(rng, dict(G1=3, G3=2, G4=3, G6=1, G10=1), False)
            run = do_count(gen.render(s), opts, budget=stream.budget_for(ctx), render=True)
            ctx.evaluated()
            if run.error is not None or run.timed_out:
                # an election that was constructed but not finished may still have re-initialised its arithmetic class: the
                # previous count can only be rendered again if nothing of its own class was set up in between
                prev = None
            if run.error is not None:
                ctx.count('count_raised:' + type(run.error).__name__)
            elif not run.timed_out:
                ctx.count('rendered_counts')
                # "reports, dumps and JSON all use this printed form": every rendered figure must be str() of the recorded value
                from . import c18
                vs18, st18 = c18.check(run)
                ctx.count('rendered_fields_compared', st18['dump_rows'] + st18['blocks'])
                for key, msg, wit in vs18:
                    if key.startswith(('report-', 'dump-', 'json-')):
                        ctx.violation('rendering-not-the-printed-form:' + key, msg, dict(kind='rendered-count', blt=gen.render(s), options=opts))
                ctx.sample(dict(options=opts, report_excerpt=(run.report or '')[:400]), keep=1)
                # the configured display digits belong to the election: rendering an election of another arithmetic class in
                # between must not change how this one prints (the value classes keep their settings per class)
                if prev is not None and prev[0].cfg.kind != run.cfg.kind:
                    pr, pblt, popts = prev
                    ctx.count('re_renderings_after_a_count_of_another_class')
                    try:
                        again = dict(report=pr.E.report(), dump=pr.E.dump(), json=pr.E.json())
                    except Exception as e:      # pylint: disable=broad-except
                        again = None
                        ctx.violation('re-rendering-raises:' + type(e).__name__, 're-rendering a finished %s count after a %s count raised %r'
                                      % (pr.cfg.kind, run.cfg.kind, e), dict(kind='re-render', first=dict(blt=pblt, options=popts), then=dict(blt=gen.render(s), options=opts)))
                    for what in ('report', 'dump', 'json') if again else ():
                        if again[what] != getattr(pr, what):
                            ctx.violation('printed-form-changed-by-another-election:' + what,
                                          'the %s of a finished %s count (display=%s) reads differently after a %s count was rendered: %r'
                                          % (what, pr.cfg.kind, popts.get('display'), run.cfg.kind, first_diff(getattr(pr, what), again[what])),
                                          dict(kind='re-render', first=dict(blt=pblt, options=popts), then=dict(blt=gen.render(s), options=opts)))
                prev = (run, gen.render(s), opts)
        ctx.count('str_inside_renderings', rec.total() - before)
    finally:
        rm()
    ctx.count('str_evaluations', rec.total())
    for k, v in rec.evals.items():
        ctx.count(k.replace(':__str__', '_str'), v)
    ctx.count('rounded_or_negative', rec.inexact)
    ctx.evaluated(rec.total())
    for h in rec.distinct:
        ctx.mark_nontrivial('%x' % (h & 0xffffffffffffffff))
    for key, msg in rec.fails:
        ctx.violation(key, msg, dict(kind='contract', message=msg))


def replay(case):
    if case.get('kind') == 're-render':
        return rerender(case['first'], case['then'])
    if case.get('kind') == 'rendered-count':
        from . import c18
        run = do_count(case['blt'], case['options'], budget=60, render=True)
        if not run.complete:
            return []
        return [('rendering-not-the-printed-form:' + k, m) for k, m, _ in c18.check(run)[0] if k.startswith(('report-', 'dump-', 'json-'))]
    rec = Recorder()
    rm = install_str(rec)

    class Fake:
        nshards, shard = 1, 0
    try:
        sweep(rec, Fake, random.Random(0), True)
    finally:
        rm()
    seen = {}
    for k, m in rec.fails:
        seen.setdefault(k, m)
    return list(seen.items())
