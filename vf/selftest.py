"""
Sensitivity self-test (DESIGN 2.4): apply one mutant to a scratch copy of /repo's working tree,
optionally run the pinned suite on the copy, run the property's check with VERIF_REPO=<copy>,
expect exit 1.  Not registered as a check; run by hand:

  run.py selftest [--prop C07] [--name substr] [--tests] [--tier quick] [--jobs 4]
"""
import os, sys, json, shutil, subprocess, tempfile, time, concurrent.futures

ROOT = os.path.dirname(os.path.dirname(os.path.abspath(__file__)))
PY = sys.executable


def sh(cmd, cwd=None, env=None, timeout=7200):
    p = subprocess.run(cmd, shell=True, cwd=cwd, env=env, stdout=subprocess.PIPE, stderr=subprocess.STDOUT, text=True, timeout=timeout)
    return p.returncode, p.stdout


def make_copy(repo='/repo'):
    d = tempfile.mkdtemp(prefix='mutcopy_', dir='/tmp')
    rc, out = sh('git -C %s ls-files -z | (cd %s && xargs -0 cp --parents -t %s)' % (repo, repo, d))
    assert rc == 0, out
    return d


def apply(copy, spec):
    for sp in [spec] + spec.get('also', []):
        path = os.path.join(copy, sp['file'])
        s = open(path).read()
        n = s.count(sp['old'])
        if n != 1:
            return 'pattern occurs %d times in %s' % (n, sp['file'])
        open(path, 'w').write(s.replace(sp['old'], sp['new']))
    return None


def run_one(spec, tests, tier, quick_s):
    copy = make_copy()
    res = dict(name=spec['name'], prop=spec['prop'])
    try:
        err = apply(copy, spec)
        if err:
            res['error'] = err
            return res
        rc, out = sh('%s -c "import sys; sys.path.insert(0, %r); import droop"' % (PY, copy))
        if rc != 0:
            res['error'] = 'mutant does not import: ' + out[-300:]
            return res
        if tests:
            rc, out = sh('%s -m pytest -q -p no:cacheprovider -x 2>&1 | tail -1' % PY, cwd=copy, timeout=1800)
            res['survives_tests'] = ' passed' in out and 'failed' not in out
        env = dict(os.environ, VERIF_REPO=copy, VERIF_SHARDS=os.environ.get('VERIF_SHARDS', '8'), VERIF_COV='0')
        if quick_s:
            env['VERIF_QUICK_S'] = str(quick_s)
        t0 = time.time()
        rc, out = sh('%s run.py check %s --tier %s' % (PY, spec['prop'], tier), cwd=ROOT, env=env)
        res['rc'] = rc
        res['s'] = round(time.time() - t0, 1)
        res['lines'] = [l[:220] for l in out.splitlines() if l.startswith(('VIOLATION', '  [', 'INCONCLUSIVE'))][:4]
    finally:
        shutil.rmtree(copy, ignore_errors=True)
    return res


def main(argv):
    sys.path.insert(0, ROOT)
    from mutants.specs import M
    prop = name = None
    tests = False
    tier = 'quick'
    jobs = 2
    quick_s = 10
    while argv:
        a = argv.pop(0)
        if a == '--prop': prop = argv.pop(0).split(',')
        elif a == '--name': name = argv.pop(0)
        elif a == '--tests': tests = True
        elif a == '--tier': tier = argv.pop(0)
        elif a == '--jobs': jobs = int(argv.pop(0))
        elif a == '--quick-s': quick_s = float(argv.pop(0))
    specs = [s for s in M if (prop is None or s['prop'] in prop) and (name is None or name in s['name'])]
    missed = 0
    results = []
    with concurrent.futures.ThreadPoolExecutor(max_workers=jobs) as ex:
        for res in ex.map(lambda s: run_one(s, tests, tier, quick_s), specs):
            results.append(res)
            caught = res.get('rc') == 1
            if not caught:
                missed += 1
            print('%-8s %-34s %s%s %s' % (res['prop'], res['name'], 'CAUGHT' if caught else 'MISSED rc=%s' % res.get('rc'),
                                          '' if 'survives_tests' not in res else (' (survives tests)' if res['survives_tests'] else ' (killed by tests)'),
                                          res.get('error') or (res.get('lines') or [''])[-1][:150]), flush=True)
    os.makedirs(os.path.join(ROOT, 'out'), exist_ok=True)
    with open(os.path.join(ROOT, 'out', 'selftest.json'), 'w') as f:
        json.dump(results, f, indent=1)
    print('%d mutants, %d missed' % (len(results), missed))
    return 1 if missed else 0
