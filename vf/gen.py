"""
Workload layer: election *structures* and their canonical BLT rendering (DESIGN 2.2).

A structure is a dict:
  nc, ns            candidate count, seats
  names             list of nc names (index cid-1)
  tie               list of cids in tie-break order (first = favoured) or None
  withdrawn         list of cids
  undeclared        list of cids
  nick              list of nc nicknames or None
  lines             [(multiplier, ranking)]   ranking = [cid,...]  or  [[cid,..],..] when
                    the structure uses equal rankings ('eq': True)
  title, source, comment, options ([droop ...] strings)
Every generator takes a random.Random and returns a valid structure (seats <= eligible,
ballots kept >= eligible).
"""
import random

NAMES = ['Ada', 'Ben', 'Cy', 'Dot', 'Eve', 'Fay', 'Gus', 'Hal', 'Ida', 'Jo', 'Kit', 'Lou', 'Max', 'Nan',
         'Oz', 'Pip', 'Quin', 'Rae', 'Sol', 'Tam', 'Una', 'Vic', 'Wyn', 'Xan', 'Yul', 'Zed']


def names_for(nc):
    if nc <= len(NAMES):
        return NAMES[:nc]
    return NAMES + ['C%d' % i for i in range(len(NAMES) + 1, nc + 1)]


HOSTILE_NAMES = ['Uninterrupted Power Party', 'Cy {Jr} Carter', '{0}', '%s %d', '100%', '{', '}', 'interrupted', 'Mr interrupt',
                 "O'Neil", 'x<y>&z', '{name}', '%(x)s', '\\n', 'terminated', 'Elect', 'Defeat', 'Quota', 'Hopeful', 'Elected', 'Defeated',
                 'Write-in', 'R', 'Q', 'Residual', 'None', 'null', '0', '1.5', '-1', 'Bj\u00f6rk', '\u6771\u4eac', 'e\u0301',
                 'incomplete', '** x **', 'Add eligible', 'Count complete', 'Z' * 60]


def hostile_names(rng, nc, repeats=False):
    """
    candidate names that look like the package's own words, format directives or markup -- a name is data and must come out of
    every rendering unchanged and change nothing else.  No double quote (the BLT form cannot carry one), and no comma, bracket,
    colon or arrow, which the monitors' own parsing of tie-break messages relies on.
    """
    if repeats:
        pool = rng.sample(HOSTILE_NAMES, max(1, min(len(HOSTILE_NAMES), nc // 2)))
        return [rng.choice(pool) for _ in range(nc)]
    if nc <= len(HOSTILE_NAMES):
        # one name of each dangerous kind (the marker's word, a brace directive, a percent directive), the rest at random
        must = [rng.choice(['Uninterrupted Power Party', 'interrupted', 'Mr interrupt']), rng.choice(['Cy {Jr} Carter', '{0}', '{', '}', '{name}']),
                rng.choice(['%s %d', '100%', '%(x)s'])][:nc]
        rest = rng.sample([n for n in HOSTILE_NAMES if n not in must], nc - len(must))
        names = must + rest
        rng.shuffle(names)
        return names
    return rng.sample(HOSTILE_NAMES, len(HOSTILE_NAMES)) + ['C%d' % i for i in range(len(HOSTILE_NAMES) + 1, nc + 1)]


def base(nc, ns, lines, rng=None, tie=True):
    s = dict(nc=nc, ns=ns, names=names_for(nc), tie=None, withdrawn=[], undeclared=[], nick=None,
             lines=lines, title='T', source=None, comment=None, options=[], eq=False, family='?')
    if tie and rng is not None:
        t = list(range(1, nc + 1))
        rng.shuffle(t)
        s['tie'] = t
    return s


def eligible(s):
    return [c for c in range(1, s['nc'] + 1) if c not in s['withdrawn']]


def kept_ballots(s):
    "total multiplier of the ballot lines that survive removal of withdrawn candidates"
    wd = set(s['withdrawn'])
    tot = 0
    for m, r in s['lines']:
        if s.get('eq'):
            rr = [[c for c in grp if c not in wd] for grp in r]
            rr = [g for g in rr if g]
        else:
            rr = [c for c in r if c not in wd]
        if rr:
            tot += m
    return tot


def make_valid(s, rng):
    "repair seats / ballot count so that the profile is accepted by the parser"
    el = eligible(s)
    if not el:
        s['withdrawn'] = s['withdrawn'][1:]
        el = eligible(s)
    s['ns'] = max(1, min(s['ns'], len(el)))
    short = len(el) - kept_ballots(s)
    if short > 0:
        c = rng.choice(el)
        s['lines'].append((short, [[c]] if s.get('eq') else [c]))
    return s


def rand_ranking(rng, cands, kmin=1, kmax=None):
    kmax = kmax or len(cands)
    k = rng.randint(kmin, max(kmin, kmax))
    return rng.sample(cands, min(k, len(cands)))


# ----------------------------------------------------------------------------------------
# families
# ----------------------------------------------------------------------------------------

def g1_uniform(rng, big=False):
    nc = rng.randint(3, 14 if big else 7)
    ns = rng.randint(1, nc - 1)
    nb = rng.randint(max(3, nc // 2), 300 if big else 30)
    cands = list(range(1, nc + 1))
    lines = [(rng.choice([1, 1, 1, 2, 3, 5, 9]), rand_ranking(rng, cands)) for _ in range(nb)]
    s = base(nc, ns, lines, rng)
    s['family'] = 'G1'
    return make_valid(s, rng)


def g2_ties(rng, big=False):
    "few distinct rankings, equal multipliers, rotations and mirrored pairs -> many exact ties"
    nc = rng.randint(3, 9 if big else 6)
    ns = rng.randint(1, nc - 1)
    cands = list(range(1, nc + 1))
    m = rng.choice([1, 1, 2, 3])
    lines = []
    if rng.random() < 0.08:
        return g2c_three_way_surplus_tie(rng, big)
    mode = rng.randint(0, 4)
    if mode == 4 and nc >= 5:
        # three (or four) candidates level at an exclusion, two of whom shared the lowest tally at the most recent earlier
        # stage where they differed: an early loser's papers go one each to the two weaker ones
        grp = rng.sample(cands, rng.choice([3, 3, 4]) if nc >= 6 else 3)
        rest = [c for c in cands if c not in grp]
        lo = rest[0]
        others = rest[1:]
        b = rng.randint(2, 5)
        weak = grp[:2]
        for g in grp:
            tail = rand_ranking(rng, [x for x in cands if x != g], 0, 2)
            lines.append((b if g in weak else b + 1, [g] + tail))
        for g in weak:
            lines.append((1, [lo, g]))
        for o in others:
            lines.append((b + rng.randint(2, 6), [o]))
        ns = 1 if rng.random() < 0.7 else min(2, nc - 1)
        s = base(nc, ns, lines, rng)
        s['family'] = 'G2'
        return make_valid(s, rng)
    if mode == 4:
        mode = 3
    if mode == 0:      # cyclic rotations
        k = rng.randint(1, nc)
        for i in range(nc):
            rot = cands[i:] + cands[:i]
            lines.append((m, rot[:k]))
    elif mode == 1:    # mirrored pairs
        for _ in range(rng.randint(2, 5)):
            r = rand_ranking(rng, cands, 2)
            lines.append((m, r))
            lines.append((m, list(reversed(r))))
    elif mode == 2:    # few first preferences, equal sizes, then a perturbation
        for c in cands:
            tail = rand_ranking(rng, [x for x in cands if x != c], 0, 3)
            lines.append((m, [c] + tail))
        for _ in range(rng.randint(0, 3)):
            lines.append((m, rand_ranking(rng, cands, 1, 3)))
    else:              # candidates tied now but different at an earlier stage (for prior-stage rules)
        grp = rng.sample(cands, min(len(cands), rng.randint(2, 3)))
        others = [c for c in cands if c not in grp]
        basev = rng.randint(2, 4)
        for g in grp:
            lines.append((basev, [g] + rand_ranking(rng, [x for x in cands if x != g], 0, 2)))
        if others:
            # an early loser whose transfers re-equalise the group
            lo = rng.choice(others)
            tgt = rng.choice(grp)
            lines.append((1, [lo, tgt]))
            for g in grp:
                if g != tgt:
                    lines[grp.index(g)] = (basev + 1, lines[grp.index(g)][1])
            for o in others:
                if o != lo:
                    lines.append((rng.randint(3, 8), [o] + rand_ranking(rng, cands, 0, 2)))
        lines = [(mm, dedupe(r)) for mm, r in lines]
    s = base(nc, ns, lines, rng)
    s['family'] = 'G2'
    return make_valid(s, rng)


def g2c_three_way_surplus_tie(rng, big=False):
    """
    three candidates level for "largest surplus", two of whom shared the top at the most recent stage where the three
    differed: A (2q votes, transfer value exactly 1/2) lifts Z to the tally X and Y already hold; whether X's or Y's
    surplus goes first decides who reaches the quota next
    """
    seats = 6
    q = rng.randint(12, 30)
    d = rng.randint(1, 3)
    h = rng.randint(d + 1, min(q - 2, 9))           # half of the papers A passes to Z
    r = rng.randint(0, 5)
    fg = q - 6 - 3 * d + h + r
    if fg < 2:
        fg = 2
    f = fg // 2
    g = fg - f
    order = rng.sample(range(1, 8), 7)
    A, X, Y, Z, E, F, G = order
    lines = [(2 * h, [A, Z]), (2 * q - 2 * h, [A]), (q + d, [X, E]), (q + d, [Y, E, F]), (q + d - h, [Z, G]),
             (q - 1, [E]), (f, [F]), (g, [G])]
    if rng.random() < 0.5:
        rng.shuffle(lines)
    s = base(7, seats, lines, rng)
    s['family'] = 'G2'
    return make_valid(s, rng)


def dedupe(r):
    out = []
    for c in r:
        if c not in out:
            out.append(c)
    return out


def g3_quota_boundary(rng, big=False):
    "ballot total divisible by seats+1; first-preference blocs at quota-1, quota, quota+1"
    nc = rng.randint(3, 8 if big else 6)
    ns = rng.randint(1, min(nc - 1, 4))
    q = rng.randint(2, 12)
    total = q * (ns + 1) + rng.choice([0, 0, 0, 1, -1, ns])
    cands = list(range(1, nc + 1))
    lines = []
    left = total
    for c in rng.sample(cands, min(nc, ns + 1)):
        v = q + rng.choice([-1, 0, 0, 1, 1, 2])
        v = max(1, min(v, left))
        if v <= 0:
            break
        # split the bloc in two so that transfers go to different places
        a = rng.randint(1, v)
        lines.append((a, [c] + rand_ranking(rng, [x for x in cands if x != c], 0, 3)))
        if v - a:
            lines.append((v - a, [c] + rand_ranking(rng, [x for x in cands if x != c], 0, 3)))
        left -= v
        if left <= 0:
            break
    while left > 0:
        v = rng.randint(1, min(left, 3))
        lines.append((v, rand_ranking(rng, cands, 1, 4)))
        left -= v
    s = base(nc, ns, lines, rng)
    s['family'] = 'G3'
    return make_valid(s, rng)


def g3b_exact_hit(rng, P=4, kind='eps', offset=None):
    """
    a first-generation surplus transfer that lands exactly on the threshold (or one unit in the last place beside it):
    X polls v > T; k of X's ballots continue to A at transfer value tv = floor(surplus/v) (P places), and A's own first
    preferences a are chosen so that a + k*tv == T + offset.  kind 'eps': T = trunc_P(n/(s+1)) + ulp; 'int': T = floor(n/(s+1)) + 1.
    Returns None when no such coincidence exists for the drawn numbers.
    """
    S = 10 ** P
    for _ in range(300):
        ns = rng.randint(1, 4)
        n = rng.randint(12, 700)
        T = (n * S) // (ns + 1) + 1 if kind == 'eps' else (n // (ns + 1) + 1) * S
        lo = T // S + 1
        if lo >= n - 1:
            continue
        v = rng.randint(lo, min(n - 1, lo + rng.choice([2, 10, 60, 200])))
        sp = v * S - T
        if sp <= 0:
            continue
        tv = (sp * S) // (v * S)
        if tv <= 0:
            continue
        off = offset if offset is not None else rng.choice([0, 0, 0, 0, -1, 1])
        target = T + off
        ks = [k for k in range(1, v + 1) if target - k * tv >= 0 and (target - k * tv) % S == 0]
        if not ks:
            continue
        k = rng.choice(ks)
        a = (target - k * tv) // S
        rest = n - v - a
        if rest < 0:
            continue
        nc = rng.randint(ns + 2, ns + 5)
        cands = list(range(1, nc + 1))
        order = rng.sample(cands, nc)
        X, A = order[0], order[1]
        others = order[2:]
        lines = [(k, [X, A] + rng.sample(others, rng.randint(0, 2)))]
        if v - k:
            lines.append((v - k, [X] if rng.random() < 0.6 else [X, rng.choice(others)]))
        if a:
            lines.append((a, [A] + rng.sample(others, rng.randint(0, 2))))
        cap = max(1, T // S - 1)
        while rest > 0:
            m = rng.randint(1, min(rest, cap))
            c = rng.choice(others)
            lines.append((m, [c] + rng.sample([x for x in cands if x != c], rng.randint(0, 2))))
            rest -= m
        s = base(nc, ns, lines, rng)
        s['family'] = 'G3b'
        return make_valid(s, rng)
    return None


def g4_chains(rng, big=False):
    "blocs sharing long common prefixes: the same ballots are re-weighted several times"
    nc = rng.randint(4, 10 if big else 7)
    ns = rng.randint(2, nc - 1)
    cands = list(range(1, nc + 1))
    spine = rng.sample(cands, nc)
    lines = []
    for _ in range(rng.randint(3, 12 if not big else 40)):
        k = rng.randint(2, nc)
        r = spine[:k]
        if rng.random() < 0.4:
            i, j = rng.randrange(k), rng.randrange(k)
            r = list(r)
            r[i], r[j] = r[j], r[i]
        lines.append((rng.choice([1, 2, 3, 7, 11, 20]), r))
    for _ in range(rng.randint(0, 6)):
        lines.append((rng.choice([1, 2, 4]), rand_ranking(rng, cands)))
    s = base(nc, ns, lines, rng)
    s['family'] = 'G4'
    return make_valid(s, rng)


def g4b_tiny_chained_surpluses(rng, big=False):
    """
    two chained surpluses of about one vote each in an electorate of thousands: the second-generation transfer value
    (about 2/q^2) underflows to exactly zero at 4 or 5 decimal places
    """
    ns = rng.randint(2, 3)
    q = rng.randint(150, 2500)
    nc = rng.randint(ns + 2, ns + 4)
    cands = list(range(1, nc + 1))
    order = rng.sample(cands, nc)
    A, B, C = order[0], order[1], order[2]
    rest = order[3:]
    d1 = rng.randint(1, 3)
    lines = [(q + d1, [A, B, C] + rng.sample(rest, rng.randint(0, len(rest))))]
    lines.append((q - rng.randint(0, d1), [B, C] + rng.sample(rest, rng.randint(0, len(rest)))))
    if rng.random() < 0.5:
        lines.insert(rng.randint(0, 2), (rng.randint(1, 5), [B, rng.choice(rest + [C])]))
    total = q * (ns + 1) - rng.randint(1, ns)
    left = total - sum(m for m, _ in lines)
    share = max(1, left // (len(rest) + 1))
    for c in [C] + rest:
        m = min(left, max(1, share + rng.randint(-3, 3)), q - 2)
        if m <= 0:
            break
        lines.append((m, [c] + rng.sample([x for x in cands if x != c], rng.randint(0, 2))))
        left -= m
    rng.shuffle(lines) if rng.random() < 0.5 else None
    s = base(nc, ns, lines, rng)
    s['family'] = 'G4b'
    return make_valid(s, rng)


def g5_coalition(rng, big=False):
    "a solid coalition S supported by about k quotas of ballots"
    nc = rng.randint(4, 9 if big else 7)
    ns = rng.randint(1, min(nc - 1, 4))
    cands = list(range(1, nc + 1))
    ssize = rng.randint(1, nc - 1)
    S = rng.sample(cands, ssize)
    rest = [c for c in cands if c not in S]
    total = rng.randint(12, 60)
    k = rng.randint(1, ns)
    q = total // (ns + 1)
    size = max(1, min(total - 1, k * q + rng.choice([-1, 0, 1, 1, 2, 2, 3])))
    lines = []
    left = size
    if rng.random() < 0.4 and len(S) >= 2:
        # the coalition's support is split evenly over its members (exact ties at the bottom of the poll)
        share = max(1, size // len(S))
        for c in S:
            if left <= 0:
                break
            m = min(share, left)
            inner = [c] + rng.sample([x for x in S if x != c], len(S) - 1)
            tail = rand_ranking(rng, rest, 0, len(rest)) if rest else []
            lines.append((m, inner + tail))
            left -= m
    while left > 0:
        m = rng.randint(1, min(left, 5))
        inner = rng.sample(S, len(S))
        tail = rand_ranking(rng, rest, 0, len(rest)) if rest else []
        lines.append((m, inner + tail))
        left -= m
    left = total - size
    while left > 0:
        m = rng.randint(1, min(left, 5))
        lines.append((m, rand_ranking(rng, cands, 1, nc)))
        left -= m
    s = base(nc, ns, lines, rng)
    s['family'] = 'G5'
    s['coalition'] = sorted(S)
    return make_valid(s, rng)


def g5b_two_surpluses(rng, big=False):
    """
    a coalition owed k+1 seats whose two (or k) strong members pass the quota in the same round while a weak member needs
    ALL their surpluses to stay ahead of an outsider: weak + one surplus < outsider <= weak + all surpluses
    """
    k = rng.choice([2, 2, 3])
    nc = rng.randint(k + 2, k + 4)
    cands = list(range(1, nc + 1))
    order = rng.sample(cands, nc)
    strong, weak, outs = order[:k], order[k], order[k + 1:]
    ns = k + 1
    w = rng.randint(1, 4)
    sp = rng.randint(2, 6)
    o = rng.randint(w + sp, w + k * sp)
    q = (k * sp + w + o + len(outs) - 1) // 2 + rng.choice([0, 0, 1, -1])
    x = max(2, q + sp)
    S = strong + [weak]
    lines = []
    for c in strong:
        others = [y for y in strong if y != c]
        rng.shuffle(others)
        lines.append((x, [c] + others + [weak]))
    lines.append((w, [weak] + rng.sample(strong, len(strong))))
    lines.append((o, [outs[0]]))
    for c in outs[1:]:
        lines.append((1, [c]))
    s = base(nc, ns, lines, rng)
    s['family'] = 'G5'
    s['coalition'] = sorted(S)
    return make_valid(s, rng)


def g11_mid_electorate(rng, big=False):
    "a few weighted lines adding up to a few thousand ballots: Meek iterations stall on rounding noise near omega"
    nc = rng.randint(4, 8)
    ns = rng.randint(1, nc - 1)
    cands = list(range(1, nc + 1))
    lines = [(rng.randint(40, 1800), rand_ranking(rng, cands, 1, nc)) for _ in range(rng.randint(6, 10))]
    s = base(nc, ns, lines, rng)
    s['family'] = 'G11'
    return make_valid(s, rng)


def g6_degenerate(rng, big=False):
    nc = rng.randint(2, 9 if big else 7)
    cands = list(range(1, nc + 1))
    mode = rng.randint(0, 5)
    if mode == 0:       # seats == eligible
        ns = nc
    elif mode == 1:     # one seat
        ns = 1
    else:
        ns = rng.randint(1, nc)
    lines = []
    if mode in (2, 3):  # many zero-vote candidates / more seats than supported candidates
        sup = rng.sample(cands, rng.randint(1, max(1, nc // 2)))
        for _ in range(rng.randint(1, 6)):
            lines.append((rng.randint(1, 6), rand_ranking(rng, sup, 1, len(sup))))
        if mode == 3:
            ns = min(nc, len(sup) + rng.randint(1, 2))
    elif mode == 4:     # bullet votes only: everything exhausts early
        for _ in range(rng.randint(2, 8)):
            lines.append((rng.randint(1, 6), [rng.choice(cands)]))
    else:
        for _ in range(rng.randint(1, 10)):
            lines.append((rng.randint(1, 4), rand_ranking(rng, cands)))
    s = base(nc, ns, lines, rng)
    s['family'] = 'G6'
    return make_valid(s, rng)


def g7_withdrawn_undeclared(rng, big=False):
    s = rng.choice([g1_uniform, g2_ties, g6_degenerate, g10_sure_losers])(rng, big)
    nc = s['nc']
    cands = list(range(1, nc + 1))
    nw = rng.choice([0, 1, 1, 2, 3])
    s['withdrawn'] = rng.sample(cands, min(nw, nc - 1))
    nu = rng.choice([0, 0, 1, 1, 2, 3])
    s['undeclared'] = rng.sample(cands, min(nu, nc))
    if s['withdrawn'] and rng.random() < 0.3:   # a write-in line that was also withdrawn before the count
        s['undeclared'] = sorted(set(s['undeclared']) | {s['withdrawn'][0]})
    if rng.random() < 0.3:      # ballots ranking only withdrawn candidates
        for w in s['withdrawn']:
            s['lines'].append((rng.randint(1, 3), [w]))
    if rng.random() < 0.3 and s['undeclared']:   # write-in with very few votes: also a certain loser
        s['lines'] = [(m, r) for m, r in s['lines'] if r[0] not in s['undeclared']] or s['lines']
        s['lines'].append((1, [s['undeclared'][0]]))
    s['family'] = 'G7'
    return make_valid(s, rng)


def g12_slow_quota_decay(rng, big=False):
    """
    seats-1 strong candidates elected at once on bullet votes (their surplus can only exhaust) and two level weak hopefuls for the
    last seat: every Meek iteration shrinks the quota by the factor (seats-1)/(seats+1) only, so a round needs hundreds to
    thousands of distributions to bring the surplus under omega (the slowest convergence the rule has)
    """
    ns = int(round(10 ** rng.uniform(1.45, 2.1)))        # 28 .. 126 seats
    k = ns - 1
    nc = k + 2
    cands = list(range(1, nc + 1))
    order = rng.sample(cands, nc)
    strong, weak = order[:k], order[k:]
    lines = []
    for c in strong:
        r = [c]
        if rng.random() < 0.3:
            r += rng.sample([x for x in strong if x != c], rng.randint(1, 2))
        lines.append((rng.randint(40, 90), r))
    h = rng.randint(1, 3)
    for c in weak:
        lines.append((h, [c]))
    if rng.random() < 0.3:
        lines.append((1, [weak[0], strong[0]]))         # not level after all: the lower one is a sure loser at some point
    rng.shuffle(lines)
    s = base(nc, ns, lines, rng)
    s['family'] = 'G12'
    return make_valid(s, rng)


def g13_near_tolerance(rng, p):
    """
    two hopefuls level on first preferences, one of whom receives a single ballot of a surplus worth about 2*10^-(p+1) votes:
    the two tallies then differ by less than half a unit of precision p (but not by nothing), so guarded arithmetic calls a tie
    where exact arithmetic sees a strict order; which of them is excluded then depends on the tie-break order
    """
    N = rng.choice([1, 1, 2, 3]) * 10 ** (p + 1)
    if rng.random() < 0.2:
        N = 10 ** (p - 1)                                # difference well above the tolerance: no tie in either arithmetic
    A, C, D = rng.sample([1, 2, 3], 3)
    lines = [(N + 2, [A]), (1, [A, C]), (N, [C]), (N, [D])]
    rng.shuffle(lines)
    s = base(3, 2, lines, rng)
    s['family'] = 'G13'
    return s


def g14_symmetric_split(rng, big=False):
    """
    a leader whose ballots go on to two (or three) level runners-up in exactly equal shares, with one seat fewer than would take
    them all: whatever the leader's keep factor gives away reaches the runners-up simultaneously, so a keep factor one unit too
    small (or a quota one unit too low) lifts all of them over the quota in the same iteration
    """
    k = rng.choice([2, 2, 2, 3])
    ns = k                                      # leader + k runners-up for k seats
    extra = 0 if rng.random() < 0.7 else rng.randint(1, 2)      # also-rans (none: the runners-up converge on the quota itself)
    nc = 1 + k + extra
    cands = rng.sample(range(1, nc + 1), nc)
    A, runners, rest = cands[0], cands[1:1 + k], cands[1 + k:]
    share = rng.randint(2, 30)
    own = rng.randint(1, 25)
    lines = [(share, [A, r]) for r in runners] + [(own, [r]) for r in runners]
    for c in rest:
        lines.append((rng.randint(0, max(0, own - 1)) or 1, [c] + rng.sample(runners, rng.randint(0, 1))))
    if extra and rng.random() < 0.3:
        lines.append((rng.randint(1, 5), [A]))
    rng.shuffle(lines)
    s = base(nc, ns, lines, rng)
    s['family'] = 'G14'
    return make_valid(s, rng)


def g15_many_candidates(rng, big=False):
    """
    more candidates than fit in a byte (257-330): ids beyond 256 are no longer small cached integers and rankings are stored in
    wider arrays; a handful of well-supported candidates at both ends of the id range, long tails, many zero-vote candidates
    """
    nc = rng.randint(257, 330)
    ns = rng.randint(1, 4)
    cands = list(range(1, nc + 1))
    strong = rng.sample(cands[:8] + cands[-12:], rng.randint(4, 8))
    lines = []
    for c in strong:
        tail = rng.sample([x for x in strong if x != c], rng.randint(0, 3)) + rng.sample(cands, rng.randint(0, 2))
        seen = []
        for x in [c] + tail:
            if x not in seen:
                seen.append(x)
        lines.append((rng.randint(3, 40), seen))
    for _ in range(rng.randint(5, 25)):
        r = rng.sample(sorted(set(cands[-60:] + strong)), rng.randint(1, 4))
        lines.append((rng.randint(1, 6), r))
    s = base(nc, ns, lines, rng)
    s['names'] = ['c%d' % c for c in cands]
    if rng.random() < 0.3:
        s['withdrawn'] = rng.sample(cands, rng.randint(1, 3))
    s['family'] = 'G15'
    return make_valid(s, rng)


def g8_equal_ranks(rng, big=False):
    "ballots with equal rankings (meek / warren only)"
    nc = rng.randint(3, 8 if big else 6)
    ns = rng.randint(1, nc - 1)
    cands = list(range(1, nc + 1))
    lines = []
    for _ in range(rng.randint(3, 40 if big else 14)):
        r = rand_ranking(rng, cands)
        groups = []
        i = 0
        while i < len(r):
            k = 1 if rng.random() < 0.6 else rng.randint(2, 3)
            groups.append(r[i:i + k])
            i += k
        lines.append((rng.choice([1, 1, 2, 3, 5]), groups))
    s = base(nc, ns, lines, rng)
    s['eq'] = True
    s['family'] = 'G8'
    return make_valid(s, rng)


def _g8b_strict(rng):
    """
    the quota-creep recipe with nothing left to chance: A holds exactly total/(seats+1) and receives nothing else, B is elected
    beside it with a surplus, `weak` is the lowest hopeful, shares a 3- or 6-way equal ranking and has a ballot that goes on to B
    (so the round after its exclusion re-iterates with a quota one unit higher than A's tally)
    """
    ns = rng.randint(3, 4)
    k = rng.randint(2, 4)
    nc = 3 + k
    cands = list(range(1, nc + 1))
    order = rng.sample(cands, nc)
    A, B, weak = order[:3]
    others = order[3:]
    q = rng.randint(4, 14)
    total = q * (ns + 1)
    neq = rng.randint(1, 2)
    room = total - q - neq - 1 - (q + 1)
    lo = neq + 2
    if room < lo * k:
        return None
    vs = []
    for i in range(k):
        hi = min(q + 3, room - sum(vs) - lo * (k - i - 1))
        vs.append(rng.randint(lo, max(lo, hi)))
    nb = total - q - neq - 1 - sum(vs)
    if nb < q + 1:
        return None
    tail = [c for c in cands if c not in (A, weak)]
    lines = [(q, [[A]] + [[c] for c in rng.sample(tail, rng.randint(0, 2))])]
    grp = [weak] + rng.sample(others, 5 if (len(others) >= 5 and rng.random() < 0.3) else 2)
    lines.append((neq, [grp] + [[c] for c in rng.sample([x for x in tail if x not in grp], rng.randint(0, 1))]))
    lines.append((nb, [[B]] + [[c] for c in rng.sample(others, rng.randint(1, 2))]))
    lines.append((1, [[weak], [B]] + [[c] for c in rng.sample(others, rng.randint(0, 1))]))
    for c, v in zip(others, vs):
        lines.append((v, [[c]] + [[x] for x in rng.sample([o for o in others if o != c] + [B], rng.randint(0, 2))]))
    rng.shuffle(lines)
    s = base(nc, ns, lines, rng)
    s['eq'] = True
    s['family'] = 'G8b'
    return make_valid(s, rng)


def g8b_quota_creep(rng, big=False):
    """
    equal-rank ballots whose split is inexact at first (3 or 6 ways) and becomes exact after a weak member of the group is
    excluded, next to a candidate holding exactly ballots/(seats+1) first preferences and another with a large surplus:
    the Meek quota, computed from truncated votes, creeps up by one unit in the last place in a later round
    """
    if rng.random() < 0.6:
        s = _g8b_strict(rng)
        if s is not None:
            return s
    ns = rng.randint(1, 4)
    nc = rng.randint(max(4, ns + 2), 8)
    cands = list(range(1, nc + 1))
    order = rng.sample(cands, nc)
    A, B = order[0], order[1]
    weak = order[2]
    others = order[3:]
    q = rng.randint(3, 12)
    total = q * (ns + 1)
    lines = [(q, [[A]] + [[c] for c in rng.sample([x for x in cands if x != A], rng.randint(0, 2))])]
    left = total - q
    grp = [weak] + rng.sample(others, min(len(others), rng.choice([2, 2, 5])))
    neq = rng.randint(1, 3)
    lines.append((neq, [grp] + [[c] for c in rng.sample([x for x in cands if x not in grp], rng.randint(0, 2))]))
    left -= neq
    nb = max(1, min(left, q + rng.randint(1, q)))
    lines.append((nb, [[B]] + [[c] for c in rng.sample([x for x in cands if x != B], rng.randint(1, 3))]))
    left -= nb
    if rng.random() < 0.5 and left > 0:
        lines.append((1, [[weak], [B]]))
        left -= 1
    while left > 0:
        m = rng.randint(1, min(left, 4))
        r = rng.sample(cands, rng.randint(1, 3))
        lines.append((m, [[c] for c in r]))
        left -= m
    s = base(nc, ns, lines, rng)
    s['eq'] = True
    s['family'] = 'G8b'
    return make_valid(s, rng)


def g10_sure_losers(rng, big=False):
    "geometric tally ladders with gaps just above / below (sum of lower + surplus)"
    nc = rng.randint(4, 10 if big else 7)
    ns = rng.randint(1, min(3, nc - 2))
    cands = list(range(1, nc + 1))
    order = rng.sample(cands, nc)
    lines = []
    acc = 0
    v = rng.randint(1, 2)
    for i, c in enumerate(order):
        if i:
            v = max(1, acc + rng.choice([-1, 0, 0, 1, 1, 2]))
            if rng.random() < 0.25:
                v = lines[-1][0]            # exact tie with the previous rung
        v = min(v, 200)
        acc += v
        lines.append((v, [c] + rand_ranking(rng, [x for x in cands if x != c], 0, 3)))
    s = base(nc, ns, lines, rng)
    s['family'] = 'G10'
    return make_valid(s, rng)


_BLT_CACHE = None


def g9_real_files(rng, big=False, repo=None):
    "files from test/blt with lines dropped / duplicated, seats changed, ties re-ordered"
    global _BLT_CACHE
    import os, glob
    from .harness import ElectionProfile, REPO
    repo = repo or REPO
    if _BLT_CACHE is None:
        _BLT_CACHE = []
        for path in sorted(glob.glob(os.path.join(repo, 'test', 'blt', '**', '*.blt'), recursive=True)):
            try:
                p = ElectionProfile(path=path)
            except Exception:       # pylint: disable=broad-except
                continue
            if p.ballotLinesEqual or p.nCand > (40 if big else 12) or len(p.ballotLines) > (3000 if big else 200):
                continue
            if p.options:
                continue
            _BLT_CACHE.append((os.path.basename(path), p))
    if not _BLT_CACHE:
        return g1_uniform(rng, big)
    name, p = rng.choice(_BLT_CACHE)
    lines = [(bl.multiplier, list(bl.ranking)) for bl in p.ballotLines]
    # mutate
    for _ in range(rng.randint(0, 4)):
        op = rng.randint(0, 2)
        if op == 0 and len(lines) > 3:
            lines.pop(rng.randrange(len(lines)))
        elif op == 1:
            lines.append(lines[rng.randrange(len(lines))])
        else:
            i = rng.randrange(len(lines))
            lines[i] = (lines[i][0] + rng.randint(1, 3), lines[i][1])
    s = base(p.nCand, p.nSeats, lines, rng)
    s['names'] = [p.candidateName[c].replace(', ', ' ').replace(': ', ' ') or ('c%d' % c) for c in range(1, p.nCand + 1)]
    if len(set(s['names'])) != len(s['names']):
        s['names'] = names_for(p.nCand)
    s['withdrawn'] = sorted(p.withdrawn)
    if rng.random() < 0.5:
        s['ns'] = rng.randint(1, max(1, len(p.eligible) - 1))
    s['family'] = 'G9:' + name
    return make_valid(s, rng)


FAMILIES = {
    'G1': g1_uniform, 'G2': g2_ties, 'G3': g3_quota_boundary, 'G4': g4_chains, 'G5': g5_coalition,
    'G4b': g4b_tiny_chained_surpluses, 'G5b': g5b_two_surpluses, 'G11': g11_mid_electorate, 'G6': g6_degenerate, 'G7': g7_withdrawn_undeclared, 'G8': g8_equal_ranks, 'G8b': g8b_quota_creep, 'G12': g12_slow_quota_decay, 'G14': g14_symmetric_split, 'G15': g15_many_candidates, 'G9': g9_real_files,
    'G10': g10_sure_losers,
}


def pick(rng, weights, big=False):
    "weights: dict family -> weight"
    fams = list(weights)
    f = rng.choices(fams, [weights[k] for k in fams])[0]
    return FAMILIES[f](rng, big)


# ----------------------------------------------------------------------------------------
# canonical rendering
# ----------------------------------------------------------------------------------------

def render(s, tie=True):
    "canonical BLT text: one item per line, numeric ids, [tie] and -n forms"
    out = ['%d %d' % (s['nc'], s['ns'])]
    if s.get('nick'):
        out.append('[nick %s]' % ' '.join(s['nick']))
    if tie and s.get('tie'):
        out.append('[tie %s]' % ' '.join(map(str, s['tie'])))
    for w in s.get('withdrawn', []):
        out.append('-%d' % w)
    if s.get('undeclared'):
        und = list(s['undeclared'])
        if len(und) >= 2 and (sum(und) + s['nc']) % 2 == 0:
            # one [undeclared ...] item per write-in (items add up, like [withdrawn ...] items)
            out += ['[undeclared %d]' % c for c in und]
        else:
            out.append('[undeclared %s]' % ' '.join(map(str, und)))
    if s.get('options'):
        out.append('[droop %s]' % ' '.join(s['options']))
    for m, r in s['lines']:
        if s.get('eq'):
            rk = ' '.join('='.join(map(str, g)) for g in r)
        else:
            rk = ' '.join(map(str, r))
        out.append(('%d %s 0' % (m, rk)).replace('  ', ' '))
    out.append('0')
    for n in s['names']:
        out.append('"%s"' % n)
    out.append('"%s"' % s.get('title', 'T'))
    if s.get('source') is not None:
        out.append('"%s"' % s['source'])
        if s.get('comment') is not None:
            out.append('"%s"' % s['comment'])
    return '\n'.join(out) + '\n'


def canon_hash(s, extra=''):
    "stable hash of the election a structure denotes (for distinct-case counting)"
    import hashlib
    key = repr((s['nc'], s['ns'], sorted(s['withdrawn']), sorted(s['undeclared']), s.get('tie'),
                sorted((m, repr(r)) for m, r in s['lines']), extra))
    return hashlib.blake2b(key.encode(), digest_size=8).hexdigest()
